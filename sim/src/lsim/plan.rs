//! Plans for engine L: explicit world parameters plus a timed list of exogenous
//! actions. Execution is a pure function of the plan; the replay file is the plan.

use std::net::IpAddr;

use serde::{Deserialize, Serialize};
use serde_json::Value;

use crate::prng::Rng;

#[derive(Clone, Debug, Serialize, Deserialize, PartialEq)]
pub struct CfgParams {
    pub classic: bool,
    pub quality: bool,
    pub stall_guard: bool,
    pub stall_min_in_flight: i32,
    pub stall_ack_stale_ms: u64,
    pub conn_timeout_ms: u64,
}

#[derive(Clone, Debug, Serialize, Deserialize, PartialEq)]
pub struct LinkParams {
    pub lat_ms: u64,
    pub jit_ms: u64,
    pub loss_up: f64,
    pub loss_down: f64,
    pub dup: f64,
    pub reorder: f64,
}

#[derive(Clone, Debug, Serialize, Deserialize, PartialEq)]
pub struct RecvParams {
    /// One SRTLA ACK per this many data packets on a link (srtla_rec: 10).
    pub ack_every: usize,
    /// Period of the receiver's timer (SRT ACK / NAK re-report / expiry).
    pub timer_ms: u64,
    /// SRT ACKs go to every registered link (true) or only the last active one.
    pub fanout_all: bool,
    /// Link expiry at the receiver (srtla_rec: 10 s).
    pub link_expiry_ms: u64,
    pub naks: bool,
    /// Re-report outstanding losses every this many timer ticks (0 = never).
    pub renak_ticks: u32,
    /// Give up on a lost packet after this long (TLPKTDROP-like).
    pub drop_after_ms: u64,
    /// "coop" or "silent" at start.
    pub mode: String,
    pub max_links: usize,
}

#[derive(Clone, Debug, Serialize, Deserialize, PartialEq)]
pub struct ClientParams {
    pub start_seq: u32,
    /// React to relayed NAKs with retransmissions.
    pub rexmit_on_nak: bool,
    pub rexmit_delay_ms: u64,
}

#[derive(Clone, Debug, Serialize, Deserialize, PartialEq)]
pub enum Action {
    /// `n` data datagrams at `pps`, sizes in `size_lo..=size_hi`, sequence stride.
    Burst {
        n: u32,
        pps: u32,
        size_lo: u16,
        size_hi: u16,
        stride: u32,
    },
    /// Retransmit (R bit) the data packet `back` positions behind the newest.
    Rexmit { back: u32, count: u32 },
    /// SRT control datagram of the given type and length from the client.
    ClientControl { ctype: u16, len: u16 },
    /// Arbitrary client datagram.
    ClientRaw { hex: String },
    ClientRecvError,
    Blackhole { link: usize, up: bool, down: bool, on: bool },
    LinkLoss { link: usize, on: bool },
    SendFault {
        link: usize,
        kind: String,
        count: u32,
        batch_only: bool,
        send_only: bool,
    },
    ClientSockFault { kind: String, count: u32 },
    BindFail { link: usize, on: bool },
    ReceiverRestart,
    ReceiverMode { mode: String },
    /// Deliver `hex` to the sender on `link` after `delay` ms (adversarial / corrupt).
    Inject { link: usize, hex: String, delay: u64 },
    Reload { text: Option<String> },
    Control { line: String },
    Critical { ms: u64 },
    Stall { ms: u64 },
    SetWindow { link: usize, window: i32 },
    /// The uplink's reader task reports a receive error (it signals the loop with an empty
    /// packet, as after an ICMP error collected by recvmmsg); nothing was received.
    UplinkRecvError { link: usize },
    /// REG2 replies towards the sender are lost on this path while on.
    DropReg2 { link: usize, on: bool },
    /// The SRT endpoint restarts / rebinds: its datagrams come from a new source port from now on.
    ClientRebind { port: u16 },
    /// Direct write of the inputs the loop glue stamps onto a link (they are overwritten by the
    /// next housekeeping tick): weak / loss-degraded verdicts.
    SetGlue { link: usize, weak: bool, loss_degraded: bool },
}

impl Action {
    pub fn name(&self) -> &'static str {
        match self {
            Action::Burst { .. } => "burst",
            Action::Rexmit { .. } => "rexmit",
            Action::ClientControl { .. } => "client_control",
            Action::ClientRaw { .. } => "client_raw",
            Action::ClientRecvError => "client_recv_error",
            Action::Blackhole { .. } => "blackhole",
            Action::LinkLoss { .. } => "link_loss",
            Action::SendFault { .. } => "send_fault",
            Action::ClientSockFault { .. } => "client_sock_fault",
            Action::BindFail { .. } => "bind_fail",
            Action::ReceiverRestart => "receiver_restart",
            Action::ReceiverMode { .. } => "receiver_mode",
            Action::Inject { .. } => "inject",
            Action::Reload { .. } => "reload",
            Action::Control { .. } => "control",
            Action::Critical { .. } => "critical",
            Action::Stall { .. } => "stall",
            Action::SetWindow { .. } => "set_window",
            Action::ClientRebind { .. } => "client_rebind",
            Action::DropReg2 { .. } => "drop_reg2",
            Action::UplinkRecvError { .. } => "uplink_recv_error",
            Action::SetGlue { .. } => "set_glue",
        }
    }
}

#[derive(Clone, Debug, Serialize, Deserialize, PartialEq)]
pub struct TimedAction {
    /// Milliseconds after the start of the run.
    pub t: u64,
    pub kind: Action,
}

#[derive(Clone, Debug, Serialize, Deserialize, PartialEq)]
pub struct LPlan {
    pub seed: u64,
    pub time_base_ms: u64,
    pub n_links: usize,
    /// Initial IP list override (C19: duplicates); empty = `path_ip(0..n_links)`.
    #[serde(default)]
    pub ips: Vec<String>,
    pub cfg: CfgParams,
    pub links: Vec<LinkParams>,
    pub recv: RecvParams,
    pub client: ClientParams,
    pub horizon_ms: u64,
    pub max_steps: u64,
    /// One uplink datagram per step (true) or everything due at once (false).
    pub fine: bool,
    pub probing: bool,
    /// How the receiver is named on the command line (IPv4 literal, host name, short form).
    #[serde(default = "default_receiver_host")]
    pub receiver_host: String,
    pub actions: Vec<TimedAction>,
}

pub fn default_receiver_host() -> String {
    "127.0.0.1".to_string()
}

impl LPlan {
    pub fn initial_ips(&self) -> Vec<IpAddr> {
        if self.ips.is_empty() {
            (0..self.n_links).map(super::path_ip).collect()
        } else {
            self.ips.iter().filter_map(|s| s.parse().ok()).collect()
        }
    }
    pub fn to_value(&self) -> Value {
        serde_json::to_value(self).expect("plan serialises")
    }
    pub fn from_value(v: &Value) -> Result<LPlan, String> {
        serde_json::from_value(v.clone()).map_err(|e| format!("bad L plan: {e}"))
    }
}

pub fn hex(b: &[u8]) -> String {
    let mut s = String::with_capacity(b.len() * 2);
    for x in b {
        s.push_str(&format!("{x:02x}"));
    }
    s
}

pub fn unhex(s: &str) -> Option<Vec<u8>> {
    if s.len() % 2 != 0 {
        return None;
    }
    (0..s.len() / 2)
        .map(|i| u8::from_str_radix(&s[2 * i..2 * i + 2], 16).ok())
        .collect()
}

/// Scenario profile: which faults and traffic shapes a check wants.
#[derive(Clone, Debug, Default)]
pub struct Profile {
    pub name: &'static str,
    pub links_lo: usize,
    pub links_hi: usize,
    pub horizon_lo_ms: u64,
    pub horizon_hi_ms: u64,
    pub force_classic: Option<bool>,
    pub force_guard: Option<bool>,
    /// Probability that a run is entirely fault-free.
    pub p_fault_free: f64,
    pub net_loss: bool,
    pub blackholes: bool,
    pub link_loss: bool,
    pub send_faults: bool,
    pub bind_faults: bool,
    pub receiver_restart: bool,
    pub stalls: bool,
    pub reloads: bool,
    pub config_changes: bool,
    pub critical: bool,
    pub rexmits: bool,
    pub collisions: bool,
    pub client_controls: bool,
    pub client_sock_faults: bool,
    pub injections: bool,
    pub random_windows: bool,
    pub timeouts: bool,
    pub max_bursts: u32,
    pub small_timeout_bias: bool,
    pub low_stall_threshold_bias: bool,
    pub heavy_rate_bias: bool,
}

impl Profile {
    pub fn base(name: &'static str) -> Profile {
        Profile {
            name,
            links_lo: 1,
            links_hi: 4,
            horizon_lo_ms: 4_000,
            horizon_hi_ms: 20_000,
            p_fault_free: 0.25,
            max_bursts: 6,
            client_controls: true,
            rexmits: true,
            ..Default::default()
        }
    }
}

fn gen_link(r: &mut Rng, lossy: bool) -> LinkParams {
    let lat = *r.pick(&[1u64, 5, 10, 20, 35, 60, 120, 250, 600]);
    LinkParams {
        lat_ms: lat,
        jit_ms: if r.chance(0.5) { 0 } else { r.range(1, (lat / 2).max(1)) },
        loss_up: if lossy && r.chance(0.4) {
            *r.pick(&[0.002, 0.01, 0.05, 0.2])
        } else {
            0.0
        },
        loss_down: if lossy && r.chance(0.3) {
            *r.pick(&[0.002, 0.01, 0.05, 0.2])
        } else {
            0.0
        },
        dup: if lossy && r.chance(0.2) { 0.02 } else { 0.0 },
        reorder: if lossy && r.chance(0.3) { 0.05 } else { 0.0 },
    }
}

/// Turn a seed into a closed-loop plan under `profile`.
pub fn generate(seed: u64, profile: &Profile) -> LPlan {
    let mut r = Rng::new(seed ^ 0x4C50_4C41_4E00);
    let n_links = r.range(profile.links_lo as u64, profile.links_hi as u64) as usize;
    let fault_free = r.chance(profile.p_fault_free);
    let horizon_ms = r.range(profile.horizon_lo_ms, profile.horizon_hi_ms);
    let classic = profile.force_classic.unwrap_or_else(|| r.chance(0.35));
    let stall_guard = profile.force_guard.unwrap_or_else(|| r.chance(0.8));
    let conn_timeout_ms = if profile.timeouts || profile.small_timeout_bias {
        if profile.small_timeout_bias && r.chance(0.6) {
            *r.pick(&[1000u64, 1001, 1500, 2500, 3000])
        } else {
            *r.pick(&[1000u64, 1001, 2500, 5000, 5000, 5000, 8000, 15000, 60000])
        }
    } else {
        5000
    };
    let cfg = CfgParams {
        classic,
        quality: r.chance(0.75),
        stall_guard,
        stall_min_in_flight: if profile.low_stall_threshold_bias && r.chance(0.7) {
            *r.pick(&[1i32, 2, 4, 8])
        } else {
            *r.pick(&[1i32, 4, 16, 32, 32, 32, 64, 256])
        },
        stall_ack_stale_ms: *r.pick(&[300u64, 800, 1000, 1500, 3000, 3000, 3000, 6000]),
        conn_timeout_ms,
    };
    let lossy = profile.net_loss && !fault_free;
    let links: Vec<LinkParams> = (0..n_links).map(|_| gen_link(&mut r, lossy)).collect();
    let recv = RecvParams {
        ack_every: *r.pick(&[1usize, 2, 5, 10, 10, 10]),
        timer_ms: *r.pick(&[5u64, 10, 10, 20, 50]),
        fanout_all: r.chance(0.7),
        link_expiry_ms: 10_000,
        naks: r.chance(0.85),
        renak_ticks: *r.pick(&[0u32, 5, 20]),
        drop_after_ms: *r.pick(&[400u64, 1000, 2000]),
        mode: "coop".into(),
        max_links: 8,
    };
    let start_seq = match r.below(5) {
        0 => 0,
        1 => r.range(1, 1000) as u32,
        2 => 0x3FFF_0000 + r.range(0, 1000) as u32,
        3 => r.range(0, 0x7FFF_0000 - 1) as u32,
        _ => (r.range(1, 60000) as u32) * 16384 - r.range(0, 40) as u32,
    };
    let client = ClientParams {
        start_seq,
        rexmit_on_nak: r.chance(0.85),
        rexmit_delay_ms: *r.pick(&[0u64, 1, 5, 30]),
    };
    let mut actions: Vec<TimedAction> = Vec::new();

    if profile.random_windows {
        for l in 0..n_links {
            actions.push(TimedAction {
                t: 0,
                kind: Action::SetWindow {
                    link: l,
                    window: r.range(1000, 60000) as i32,
                },
            });
        }
    }

    // Traffic: a few bursts after the handshake has had time to complete.
    let t0 = 3_200u64.min(horizon_ms / 2);
    let n_bursts = r.range(1, profile.max_bursts.max(1) as u64);
    let mut t = t0 + r.range(0, 400);
    for _ in 0..n_bursts {
        if t >= horizon_ms {
            break;
        }
        let heavy = profile.heavy_rate_bias && r.chance(0.5);
        let pps = if heavy {
            *r.pick(&[800u32, 1500, 3000])
        } else {
            *r.pick(&[5u32, 30, 100, 300, 800, 1500])
        };
        let dur_ms = r.range(100, 2500);
        let n = ((pps as u64 * dur_ms) / 1000).clamp(1, 4000) as u32;
        let (size_lo, size_hi) = match r.below(5) {
            0 => (16, 64),
            1 => (1, 15),
            2 => (1316, 1316),
            3 => (1400, 1500),
            _ => (16, 1500),
        };
        let stride = if profile.collisions && r.chance(0.3) {
            *r.pick(&[16384u32, 32768, 16384 * 3])
        } else if r.chance(0.1) {
            r.range(2, 70) as u32
        } else {
            1
        };
        actions.push(TimedAction {
            t,
            kind: Action::Burst {
                n,
                pps,
                size_lo,
                size_hi,
                stride,
            },
        });
        if profile.rexmits && r.chance(0.6) {
            for _ in 0..r.range(1, 4) {
                actions.push(TimedAction {
                    t: t + r.range(1, dur_ms + 200),
                    kind: Action::Rexmit {
                        back: r.range(0, 400) as u32,
                        count: r.range(1, 3) as u32,
                    },
                });
            }
        }
        if profile.critical && r.chance(0.5) {
            actions.push(TimedAction {
                t: t + r.range(0, dur_ms),
                kind: Action::Critical {
                    ms: r.range(5, 800),
                },
            });
        }
        if profile.client_controls && r.chance(0.5) {
            actions.push(TimedAction {
                t: t + r.range(0, dur_ms),
                kind: Action::ClientControl {
                    ctype: *r.pick(&[0x8000u16, 0x8001, 0x8006, 0x8005, 0x8007, 0xFFFF]),
                    len: *r.pick(&[16u16, 20, 44, 64, 2, 1]),
                },
            });
        }
        t += dur_ms + r.range(0, 1500);
    }

    if !fault_free {
        let budget = r.range(1, 5);
        for _ in 0..budget {
            // Place faults inside traffic most of the time.
            let ft = if r.chance(0.8) {
                r.range(t0, horizon_ms.saturating_sub(200).max(t0 + 1))
            } else {
                r.range(0, horizon_ms)
            };
            let link = r.below(n_links as u64) as usize;
            let mut options: Vec<u8> = Vec::new();
            if profile.blackholes {
                options.push(0);
            }
            if profile.link_loss {
                options.push(1);
            }
            if profile.send_faults {
                options.push(2);
            }
            if profile.bind_faults {
                options.push(3);
            }
            if profile.receiver_restart {
                options.push(4);
            }
            if profile.stalls {
                options.push(5);
            }
            if profile.reloads {
                options.push(6);
            }
            if profile.config_changes {
                options.push(7);
            }
            if profile.client_sock_faults {
                options.push(8);
            }
            if options.is_empty() {
                break;
            }
            match *r.pick(&options) {
                0 => {
                    let (up, down) = match r.below(3) {
                        0 => (true, true),
                        1 => (true, false),
                        _ => (false, true),
                    };
                    actions.push(TimedAction {
                        t: ft,
                        kind: Action::Blackhole { link, up, down, on: true },
                    });
                    if r.chance(0.7) {
                        actions.push(TimedAction {
                            t: ft + r.range(200, 12_000),
                            kind: Action::Blackhole { link, up, down, on: false },
                        });
                    }
                }
                1 => {
                    actions.push(TimedAction {
                        t: ft,
                        kind: Action::LinkLoss { link, on: true },
                    });
                    if r.chance(0.8) {
                        actions.push(TimedAction {
                            t: ft + r.range(500, 15_000),
                            kind: Action::LinkLoss { link, on: false },
                        });
                    }
                }
                2 => {
                    let kind = r
                        .pick(&["err:unreach", "err:refused", "err:perm", "zero", "short", "short"])
                        .to_string();
                    let which = r.below(3);
                    actions.push(TimedAction {
                        t: ft,
                        kind: Action::SendFault {
                            link,
                            kind,
                            count: r.range(1, 3) as u32,
                            batch_only: which == 0,
                            send_only: which == 1,
                        },
                    });
                }
                3 => {
                    actions.push(TimedAction {
                        t: ft,
                        kind: Action::BindFail { link, on: true },
                    });
                    actions.push(TimedAction {
                        t: ft + r.range(1_000, 40_000),
                        kind: Action::BindFail { link, on: false },
                    });
                }
                4 => actions.push(TimedAction {
                    t: ft,
                    kind: Action::ReceiverRestart,
                }),
                5 => actions.push(TimedAction {
                    t: ft,
                    kind: Action::Stall {
                        ms: *r.pick(&[16u64, 40, 120, 700, 1100, 2600]),
                    },
                }),
                6 => {
                    let text = gen_reload_text(&mut r, n_links);
                    actions.push(TimedAction {
                        t: ft,
                        kind: Action::Reload { text },
                    });
                }
                7 => {
                    let line = match r.below(5) {
                        0 => format!(
                            r#"{{"jsonrpc":"2.0","method":"set_mode","params":{{"mode":"{}"}}}}"#,
                            if r.chance(0.5) { "classic" } else { "enhanced" }
                        ),
                        1 => format!(
                            r#"{{"jsonrpc":"2.0","method":"set_quality","params":{{"enabled":{}}}}}"#,
                            r.chance(0.5)
                        ),
                        2 => format!(
                            r#"{{"jsonrpc":"2.0","method":"set_stall_deselect","params":{{"enabled":{}}}}}"#,
                            r.chance(0.5)
                        ),
                        _ => format!(
                            r#"{{"jsonrpc":"2.0","method":"set_conn_timeout","params":{{"ms":{}}}}}"#,
                            r.pick(&[0u64, 1000, 1500, 2500, 5000, 15000, 60000, 999_999])
                        ),
                    };
                    actions.push(TimedAction {
                        t: ft,
                        kind: Action::Control { line },
                    });
                }
                _ => actions.push(TimedAction {
                    t: ft,
                    kind: Action::ClientSockFault {
                        kind: r.pick(&["wouldblock", "wouldblock", "err", "err_try", "err_try"]).to_string(),
                        count: r.range(1, 6) as u32,
                    },
                }),
            }
        }
    }
    actions.sort_by_key(|a| a.t);
    LPlan {
        seed,
        time_base_ms: 1_000_000_000 + r.range(0, 1_000_000_000_000),
        n_links,
        ips: Vec::new(),
        cfg,
        links,
        recv,
        client,
        horizon_ms,
        max_steps: 400_000,
        fine: r.chance(0.5),
        probing: true,
        receiver_host: default_receiver_host(),
        actions,
    }
}

pub fn gen_reload_text(r: &mut Rng, n_links: usize) -> Option<String> {
    match r.below(10) {
        0 => None,
        1 => Some(String::new()),
        2 => Some("  \n\t\n\n".to_string()),
        3 => Some("not an ip\n999.1.1.1\n# comment\n".to_string()),
        _ => {
            let mut lines: Vec<String> = Vec::new();
            let k = r.range(1, 5);
            for _ in 0..k {
                let line = match r.below(10) {
                    0 => "garbage".to_string(),
                    1 => String::new(),
                    2 => "::1".to_string(),
                    3 => format!("  127.0.1.{}  ", r.range(1, n_links as u64 + 2)),
                    4 => format!("127.0.2.{}", r.range(1, 4)),
                    _ => format!("127.0.1.{}", r.range(1, n_links as u64 + 2)),
                };
                lines.push(line);
            }
            let mut t = lines.join("\n");
            if r.chance(0.7) {
                t.push('\n');
            }
            Some(t)
        }
    }
}

/// Generic shrinker for L plans: drop actions, then simplify parameters.
pub fn shrink(plan: &LPlan) -> Vec<LPlan> {
    let mut out: Vec<LPlan> = Vec::new();
    let n = plan.actions.len();
    // Drop halves, quarters, then single actions.
    let mut chunk = n / 2;
    while chunk >= 1 {
        let mut start = 0;
        while start < n {
            let end = (start + chunk).min(n);
            let mut p = plan.clone();
            p.actions.drain(start..end);
            if !p.actions.is_empty() || n == chunk {
                out.push(p);
            }
            start += chunk;
        }
        if chunk == 1 {
            break;
        }
        chunk /= 2;
    }
    // Shorter horizon.
    if let Some(last) = plan.actions.iter().map(|a| a.t).max() {
        let h = last + 3_000;
        if h < plan.horizon_ms {
            let mut p = plan.clone();
            p.horizon_ms = h;
            out.push(p);
        }
    }
    // Smaller bursts.
    for (i, a) in plan.actions.iter().enumerate() {
        if let Action::Burst { n, pps, size_lo, size_hi, stride } = &a.kind
            && *n > 1
        {
            let mut p = plan.clone();
            p.actions[i].kind = Action::Burst {
                n: n / 2,
                pps: *pps,
                size_lo: *size_lo,
                size_hi: *size_hi,
                stride: *stride,
            };
            out.push(p);
        }
    }
    // Clean network.
    if plan.links.iter().any(|l| l.loss_up > 0.0 || l.loss_down > 0.0 || l.dup > 0.0 || l.reorder > 0.0 || l.jit_ms > 0) {
        let mut p = plan.clone();
        for l in p.links.iter_mut() {
            l.loss_up = 0.0;
            l.loss_down = 0.0;
            l.dup = 0.0;
            l.reorder = 0.0;
            l.jit_ms = 0;
        }
        out.push(p);
    }
    // Fewer links (only when no action names the last link).
    if plan.n_links > 1 && plan.ips.is_empty() {
        let last = plan.n_links - 1;
        let names_last = plan.actions.iter().any(|a| match &a.kind {
            Action::Blackhole { link, .. }
            | Action::LinkLoss { link, .. }
            | Action::SendFault { link, .. }
            | Action::BindFail { link, .. }
            | Action::Inject { link, .. }
            | Action::SetWindow { link, .. }
            | Action::SetGlue { link, .. }
            | Action::DropReg2 { link, .. }
            | Action::UplinkRecvError { link } => *link == last,
            _ => false,
        });
        if !names_last {
            let mut p = plan.clone();
            p.n_links -= 1;
            p.links.pop();
            out.push(p);
        }
    }
    if !plan.fine {
        let mut p = plan.clone();
        p.fine = true;
        out.push(p);
    }
    out
}
