//! Types shared by all engines: violations, run outcomes, the check interface.

use std::collections::BTreeMap;

use serde::{Deserialize, Serialize};
use serde_json::Value;

#[derive(Clone, Debug, Serialize, Deserialize, PartialEq)]
pub struct Violation {
    /// Monitor id, e.g. `C04.ineligible_route`.
    pub monitor: String,
    /// Discriminating facts of the failing history (call site, packet kind, path).
    /// `monitor` + `label` is the signature the known-findings file keys on.
    pub label: String,
    /// Step (L), event (K) or poll (T) index at which the monitor fired.
    pub step: u64,
    pub message: String,
}

impl Violation {
    pub fn new(monitor: &str, label: &str, step: u64, message: String) -> Self {
        Violation {
            monitor: monitor.to_string(),
            label: label.to_string(),
            step,
            message,
        }
    }
    pub fn signature(&self) -> String {
        if self.label.is_empty() {
            self.monitor.clone()
        } else {
            format!("{}:{}", self.monitor, self.label)
        }
    }
}

#[derive(Clone, Copy, Debug, PartialEq, Eq)]
pub enum Tier {
    Quick,
    Thorough,
}

impl Tier {
    pub fn as_str(self) -> &'static str {
        match self {
            Tier::Quick => "quick",
            Tier::Thorough => "thorough",
        }
    }
}

/// Counters accumulated during a run and folded over the batch.
#[derive(Clone, Debug, Default)]
pub struct Stats {
    pub counters: BTreeMap<String, u64>,
}

impl Stats {
    #[inline]
    pub fn add(&mut self, key: &str, n: u64) {
        if n == 0 {
            return;
        }
        *self.counters.entry(key.to_string()).or_insert(0) += n;
    }
    #[inline]
    pub fn inc(&mut self, key: &str) {
        self.add(key, 1);
    }
    pub fn get(&self, key: &str) -> u64 {
        self.counters.get(key).copied().unwrap_or(0)
    }
    pub fn merge(&mut self, other: &Stats) {
        for (k, v) in &other.counters {
            *self.counters.entry(k.clone()).or_insert(0) += v;
        }
    }
}

#[derive(Clone, Debug, Default)]
pub struct RunOutcome {
    /// Every violation the monitors raised, in order. The runner separates
    /// known findings from new ones.
    pub violations: Vec<Violation>,
    pub log_hash: u64,
    /// Did the run hit at least one of the property's relevance probes?
    pub nontrivial: bool,
    pub inconclusive: bool,
    pub stats: Stats,
    /// Hashes of abstract states / transitions visited (bounded).
    pub states: Vec<u64>,
    pub transitions: Vec<u64>,
    /// Optional short excerpt of the event log (only filled for sample runs).
    pub excerpt: Vec<String>,
    pub sim_time_ms: u64,
}

/// One property check.
pub trait Check: Sync + Send {
    fn id(&self) -> &'static str;
    fn engine(&self) -> &'static str;
    fn level(&self) -> &'static str;
    fn runs(&self, tier: Tier) -> u64;
    /// Turn a run seed into an explicit plan (the replay file body).
    fn generate(&self, run_seed: u64, index: u64, tier: Tier) -> Value;
    /// Execute a plan. Pure function of the plan and the code under test.
    fn execute(&self, plan: &Value, want_excerpt: bool) -> RunOutcome;
    /// Smaller candidate plans for minimisation, most aggressive first.
    fn shrink(&self, _plan: &Value) -> Vec<Value> {
        Vec::new()
    }
    fn rule(&self) -> String;
    fn assumptions(&self) -> Vec<String>;
    fn real_components(&self) -> Vec<String>;
    fn stub_components(&self) -> Vec<String>;
    /// Probe counters that should be non-zero in a healthy batch.
    fn expected_probes(&self) -> Vec<&'static str> {
        Vec::new()
    }
    /// Compact a plan for display in evidence samples.
    fn sample_view(&self, plan: &Value) -> Value {
        plan.clone()
    }
}
