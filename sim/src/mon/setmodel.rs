//! Per-link *set* model of outstanding sequence numbers (shared by C02, C05,
//! C10): no high-water mark, no fast path — just sets. Written from the C02
//! statement. Choices the statement leaves open (which other holder an
//! unattributed SRTLA ACK retires; whether a NAK is charged at all) are resolved
//! by observation and returned as events for the caller to judge.

use std::collections::{BTreeMap, BTreeSet, HashMap};

use srtla_send::net::verif_hooks::UplinkCall;

use super::{T_REG3, T_SRT_ACK, T_SRT_NAK, T_SRTLA_ACK, data_seq, ptype};
use crate::lsim::env::ref_parse_nak;
use crate::lsim::{LinkView, StepCtx};

#[derive(Clone, Debug)]
pub enum SetEv {
    Sent { conn: u64, seqs: Vec<i32> },
    Reset { conn: u64 },
    CumAck { ack: i32 },
    /// One entry of an SRTLA ACK list that arrived on `arrival`.
    SrtlaAck {
        arrival: u64,
        seq: i32,
        /// Link whose copy was retired (None: nobody held it).
        retired_on: Option<u64>,
        /// In-flight of that link right after the removal.
        in_flight_after: i32,
        ambiguous: bool,
    },
    /// One entry of a NAK list. `holders` = links holding it before the entry.
    Nak {
        seq: u32,
        holders: Vec<u64>,
        /// Link that actually lost it (by observation), if any.
        removed_from: Option<u64>,
    },
}

#[derive(Default)]
pub struct SetModel {
    pub sets: HashMap<u64, BTreeSet<i32>>,
    /// Highest cumulative ACK applied while the link existed (for labelling).
    pub max_cum_ack: HashMap<u64, i32>,
}

pub fn ref_parse_srtla_ack(b: &[u8]) -> Vec<u32> {
    if b.len() < 8 || ptype(b) != Some(T_SRTLA_ACK) {
        return Vec::new();
    }
    b[4..]
        .chunks_exact(4)
        .map(|c| u32::from_be_bytes([c[0], c[1], c[2], c[3]]))
        .collect()
}

pub fn ref_parse_srt_ack(b: &[u8]) -> Option<u32> {
    if b.len() < 20 || ptype(b) != Some(T_SRT_ACK) {
        return None;
    }
    Some(u32::from_be_bytes([b[16], b[17], b[18], b[19]]))
}

impl SetModel {
    fn exists(views: &[LinkView], conn: u64) -> bool {
        views.iter().any(|v| v.conn_id == conn)
    }

    /// Flushes in `wire[lo..hi]`: the first `send_batch` call of a flush offers
    /// the whole drained batch; every tracked datagram in it is now outstanding.
    fn apply_flushes(&mut self, ctx: &StepCtx<'_>, lo: usize, hi: usize, views: &[LinkView], evs: &mut Vec<SetEv>) {
        let mut i = lo;
        while i < hi {
            let w = &ctx.wire[i];
            if w.call != UplinkCall::SendBatch {
                i += 1;
                continue;
            }
            let fd = w.fd;
            let mut j = i + 1;
            while j < hi && ctx.wire[j].call == UplinkCall::SendBatch && ctx.wire[j].fd == fd {
                j += 1;
            }
            if let Some(conn) = views.iter().find(|v| v.fd == Some(fd)).map(|v| v.conn_id) {
                let seqs: Vec<i32> = w
                    .offered
                    .iter()
                    .filter_map(|d| data_seq(d))
                    .map(|s| s as i32)
                    .collect();
                let set = self.sets.entry(conn).or_default();
                for s in &seqs {
                    set.insert(*s);
                }
                evs.push(SetEv::Sent { conn, seqs });
            }
            i = j;
        }
    }

    /// Apply one step; `torn_down` / `removed` come from the caller's `Truth`.
    /// `real_holds(conn, seq)` reads the implementation's log after the step and
    /// is used only to resolve the choices the statement leaves open.
    pub fn apply_step(
        &mut self,
        ctx: &StepCtx<'_>,
        torn_down_main: &[u64],
        removed: &[u64],
        real_holds: &dyn Fn(u64, i32) -> bool,
    ) -> Vec<SetEv> {
        let mut evs = Vec::new();
        for v in ctx.pre {
            self.sets.entry(v.conn_id).or_default();
        }
        // main action: flushes, then tear-downs (a failed threshold flush resets after draining)
        self.apply_flushes(ctx, 0, ctx.wire_mid, ctx.pre, &mut evs);
        for c in torn_down_main {
            if let Some(s) = self.sets.get_mut(c) {
                s.clear();
            }
            self.max_cum_ack.remove(c);
            evs.push(SetEv::Reset { conn: *c });
        }
        for c in removed {
            self.sets.remove(c);
            self.max_cum_ack.remove(c);
        }
        for v in ctx.mid {
            self.sets.entry(v.conn_id).or_default();
        }
        // deliveries in order
        for (conn, b) in ctx.uplink {
            if !Self::exists(ctx.post, *conn) {
                continue;
            }
            let Some(t) = ptype(b) else { continue };
            match t {
                T_REG3 => {
                    self.sets.entry(*conn).or_default().clear();
                    self.max_cum_ack.remove(conn);
                    evs.push(SetEv::Reset { conn: *conn });
                }
                T_SRT_ACK => {
                    if let Some(a) = ref_parse_srt_ack(b) {
                        let a = a as i32;
                        for (c, set) in self.sets.iter_mut() {
                            let keep = set.split_off(&a.saturating_add(1));
                            if a == i32::MAX {
                                set.clear();
                            } else {
                                *set = keep;
                            }
                            let e = self.max_cum_ack.entry(*c).or_insert(i32::MIN);
                            *e = (*e).max(a);
                        }
                        evs.push(SetEv::CumAck { ack: a });
                    }
                }
                T_SRTLA_ACK => {
                    for s in ref_parse_srtla_ack(b) {
                        let s = s as i32;
                        let on_arrival = self.sets.get(conn).is_some_and(|x| x.contains(&s));
                        if on_arrival {
                            let set = self.sets.get_mut(conn).unwrap();
                            set.remove(&s);
                            evs.push(SetEv::SrtlaAck {
                                arrival: *conn,
                                seq: s,
                                retired_on: Some(*conn),
                                in_flight_after: set.len() as i32,
                                ambiguous: false,
                            });
                            continue;
                        }
                        let mut others: Vec<u64> = ctx
                            .post
                            .iter()
                            .map(|v| v.conn_id)
                            .filter(|c| c != conn && self.sets.get(c).is_some_and(|x| x.contains(&s)))
                            .collect();
                        let ambiguous = others.len() > 1;
                        if ambiguous {
                            // any one is accepted: follow the one the implementation retired
                            let lost: Vec<u64> = others.iter().copied().filter(|c| !real_holds(*c, s)).collect();
                            if let Some(first) = lost.first() {
                                others = vec![*first];
                            } else {
                                others.truncate(1);
                            }
                        }
                        match others.first() {
                            Some(c) => {
                                let set = self.sets.get_mut(c).unwrap();
                                set.remove(&s);
                                evs.push(SetEv::SrtlaAck {
                                    arrival: *conn,
                                    seq: s,
                                    retired_on: Some(*c),
                                    in_flight_after: set.len() as i32,
                                    ambiguous,
                                });
                            }
                            None => evs.push(SetEv::SrtlaAck {
                                arrival: *conn,
                                seq: s,
                                retired_on: None,
                                in_flight_after: 0,
                                ambiguous: false,
                            }),
                        }
                    }
                }
                T_SRT_NAK => {
                    // Per-seq bookkeeping so a number listed twice is judged entry by entry.
                    let mut taken: BTreeMap<i32, Vec<u64>> = BTreeMap::new();
                    for n in ref_parse_nak(b) {
                        let s = n as i32;
                        let holders: Vec<u64> = ctx
                            .post
                            .iter()
                            .map(|v| v.conn_id)
                            .filter(|c| self.sets.get(c).is_some_and(|x| x.contains(&s)))
                            .collect();
                        // Which holder lost it, by observation (at most one per entry).
                        let already = taken.entry(s).or_default();
                        let removed_from = holders
                            .iter()
                            .copied()
                            .find(|c| !real_holds(*c, s) && !already.contains(c));
                        if let Some(c) = removed_from {
                            self.sets.get_mut(&c).unwrap().remove(&s);
                            already.push(c);
                        }
                        evs.push(SetEv::Nak {
                            seq: n,
                            holders,
                            removed_from,
                        });
                    }
                }
                _ => {}
            }
        }
        // flushes during the trailing drain do not exist (only out-of-band sends), but keep symmetric
        self.apply_flushes(ctx, ctx.wire_mid, ctx.wire.len(), ctx.mid, &mut evs);
        evs
    }
}
