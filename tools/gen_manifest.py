#!/usr/bin/env python3
"""Generate /verif/MANIFEST.json from the table below (keeps the manifest valid and in one place)."""
import json, subprocess

ENGINE_NAME = {"TSX": "tasksim + shuttlesim + socketsim (the real control-socket connection task on socket pairs under a seeded current-thread runtime)", "TX": "tasksim (task-schedule simulation) + socketsim (the real control-socket connection task on socket pairs under a seeded current-thread runtime)", "KW": "coresim (core timed-history simulation) + wholeloop (the real select! loop on a paused, seeded tokio runtime)", "KL": "coresim (core timed-history simulation) + loopsim (the same monitor at every routing decision of the real shell)", "TS": "tasksim (task-schedule simulation) + shuttlesim (thread-schedule simulation of the configuration under shuttle)", "LK": "loopsim (event-loop simulation) + coresim (the bare scheduler on generated timed histories)", "LW": "loopsim (event-loop simulation) + wholeloop (the real select! loop on a paused, seeded tokio runtime)", "L": "loopsim (event-loop simulation)", "K": "coresim (core timed-history simulation)", "T": "tasksim (task-schedule simulation)"}
TECH = {
    "TSX": "deterministic simulation with fault injection: own seeded single-thread executor interleaving control clients line by line (malformed-line faults, reference configuration model, entry-point differential), shuttle's seeded random / PCT schedulers over setter and reader threads with the configuration atomics replaced by shuttle's, and the real control-socket connection task served on socket pairs under a seeded paused-clock current-thread tokio runtime (request streams cut into arbitrary writes, unterminated last requests, half-closes, event bursts; differential against the synchronous dispatcher); seed+plan replay",
    "TX": "deterministic simulation with fault injection: own seeded single-thread executor deciding every task interleaving at await/yield points (stalled, closed and full subscribers) with history oracles, plus the real control-socket connection task served on socket pairs under a seeded paused-clock current-thread tokio runtime (event bursts against partially written requests and half-closes; per-subscription order / at-most-once / ownership on the wire); seed+schedule / seed+plan replay",
    "KW": "deterministic simulation with fault injection: seeded timed event histories on the real sans-IO core under a virtual clock (NAK bursts, recovery ticks at every spacing and RTT velocity, resets, mode changes) with invariant monitors, plus whole-loop runs of the real run_sender_with_config on a paused-clock current-thread tokio runtime with seeded select! order, run-time mode switches and a wire-level oracle on the keepalive telemetry; seed+plan replay",
    "KL": "deterministic simulation with fault injection: seeded timed event histories on the real sans-IO core under a virtual clock (silence, ACK starvation, RTT inflation, loss bursts, resets) plus the same temporal/invariant monitor fed from every routing decision of seeded closed-loop runs on the real shell arms (virtual clock, socket seams, black holes, reloads); seed+plan replay",
    "TS": "deterministic simulation with fault injection: own seeded single-thread executor interleaving control clients line by line (malformed-line faults, reference configuration model, entry-point differential) plus shuttle's seeded random / PCT schedulers over setter and reader threads with the configuration atomics replaced by shuttle's; seed+plan replay",
    "LK": "deterministic simulation with fault injection: seeded event-loop simulator around the real shell arms (virtual clock, in-memory socket seams, fault actions) plus seeded timed event histories on the real core for the bare scheduler; independent eligibility model at every routing decision; seed+plan replay",
    "LW": "deterministic simulation with fault injection: seeded event-loop simulator around the real shell arms (virtual clock, in-memory socket seams, ledger/invariant monitors) plus whole-loop runs of the real run_sender_with_config on a paused-clock current-thread tokio runtime with seeded select! order and wire-level oracles; seed+plan replay",
    "L": "deterministic simulation with fault injection: seeded event-loop simulator around the real shell arms, virtual clock, in-memory socket seams, invariant/ledger monitors, seed+plan replay",
    "K": "deterministic simulation with fault injection: seeded timed event histories on the real sans-IO core under a virtual clock (silence, ACK starvation, RTT inflation, loss bursts, resets), temporal/invariant monitors, seed+plan replay",
    "T": "deterministic simulation with fault injection: own seeded single-thread executor deciding every task interleaving at await/yield points (stalled, closed and full subscribers), history oracles, seed+schedule replay",
}

# id: (built, engine, category, text, note, design_ref)
P = {
 "C01": (True, "LW", "fault_enumeration",
   "Closed-loop simulation of the real forwarding path (handle_srt_packet / forward_via_connection / send_stall_probes / flush_all_batches / send_all_datagrams) under seeded arm interleavings, all batch regimes, link loss, black holes, send errors, short and zero-progress sendmmsg, re-registration, reloads and stalls; a per-link FIFO ledger checks every send_batch call byte for byte, in order, once, the 32-datagram / one-flush-tick hold bound, the probe budget, and that only excused datagrams go missing. Sampling, not enumeration: a clean batch is evidence, not proof.",
   "Trusted: hook H3 as the only way stream bytes leave, the environment models. Engine L mirrors the select! glue; one run in six executes the real run_sender_with_config (engine W: paused tokio clock, seeded select! order, listener shim, wire-level conservation / order / hold-bound / duplicate-budget oracle) so that the glue of src/sender/mod.rs is covered too. Kernel UDP and recvmmsg are outside the simulation.",
   "§P-C01"),
 "C02": (True, "LK", "exploration",
   "Closed-loop simulation (send side fault-free) with retransmissions of already-acknowledged numbers, duplicate probes, receiver ACK/NAK traffic and forged well-formed cumulative ACKs (stale, duplicate, >64 ahead), SRTLA ACK lists on any link, NAK singles/ranges and link resets; after every step each link's outstanding log is compared as a set with a high-water-mark-free set model, plus in-flight = |set| >= 0 and score = window/(|set|+queued+1). Seeded sampling of histories: evidence, not proof.",
   "Trusted: the packet log exposed by the repository's own test-internals feature is the implementation's notion of outstanding packets; choices the statement leaves open (which other holder an SRTLA ACK retires, whether a NAK is charged) are read from observation. Send failures are outside the quantifier and not injected here.",
   "§P-C02"),
 "C04": (True, "LK", "fault_enumeration",
   "Closed-loop simulation on 2..4 uplinks with black holes, link loss, short timeouts (connected-but-timed-out links waiting out their back-off), receiver restarts / REG_ERR, run-time mode/quality/guard/timeout changes, R-flagged data and critical windows all along the stream; every routing decision after establishment is judged by an independent eligibility model (REG3 since last reset, heard within the timeout by the monitor's own stamps, not stall-gated in this decision) and a bad decision is labelled by call site (selector vs priority override). Seeded sampling of fault histories.",
   "Trusted: the stall-gated flag read back right after a decision is the one that decision computed; the mirrored loop glue; environment models.",
   "§P-C04"),
 "C05": (True, "L", "exploration",
   "Closed-loop simulation with probe copies, re-routed retransmissions, sequence strides colliding modulo 16384, an exact 5000/5001 ms expiry-boundary scenario under a silent receiver, reload removing links, and NAK lists (singles, ranges, repeats, unknown numbers) from the receiver model and forged; every NAK entry is judged against an independent ownership table and the exact charge arithmetic (+1 loss count, -100 floored at 1000, -1 in-flight) is checked per datagram. Seeded sampling of histories.",
   "Trusted: which holder lost a NAKed number is read from the packet log after the datagram (one datagram per step). For a NAK the sender has no record for, charging any one holder or nobody is accepted.",
   "§P-C05"),
 "C10": (True, "LW", "exploration",
   "Closed-loop simulation in classic mode with the stall guard off from random window vectors, with R-flagged data, critical windows, SRTLA ACKs, cumulative ACKs, NAKs, resets and housekeeping ticks (some runs start in enhanced mode and switch, leaving quality caches stale); an independent re-implementation of the reference rules predicts every routing choice and every window from the observed pre-state of each step (stepwise refinement, so one divergence is localised to one event). Seeded sampling of histories.",
   "Trusted: usable = REG3 since last reset, connected, heard within the configured timeout (monitor's own stamps); the link a NAK was charged to is taken from observation (C05 judges it). One run in seven executes the real run_sender_with_config (engine W) with run-time mode switches on a mostly idle session: while the configured mode is classic, two consecutive keepalives of a link with no ACK / NAK / reset in between must report the same window (the housekeeping arm of src/sender/mod.rs, which engine L only mirrors).",
   "§P-C10"),
 "C07": (True, "L", "fault_enumeration",
   "Simulation of the real registration manager inside the real shell (uplink_recv, housekeeping) on 2..3 uplinks with start-up probing, against an adversarial receiver (up to 14 handshake packets of every kind - REG_NGP, REG2 well-formed / short / over-long / wrong link / foreign id, REG3, REG_ERR - on any link at instants straddling the 1 s / 2 s / 4 s / 5 s deadlines by +-1 ms, late, twice or never) and against the cooperative receiver with loss, delay, black holes and restarts; a wire-level protocol monitor evaluates the eight clauses of the statement after every step and bounded liveness in clean runs. Seeded sampling of packet/tick sequences to bounded depth.",
   "Trusted: the immediate REG1 answering a REG_NGP is judged by the one-outstanding rule only (the 'only while no uplink is registered' clause is about the housekeeping driver). Reload is outside C07's quantifier.",
   "§P-C07"),
 "C08": (True, "LW", "fault_enumeration",
   "Simulation of the whole recovery loop (housekeeping -> reconnect -> REG2/REG1 -> REG3 -> warming) on 2..4 uplinks over 15 s to 10 virtual minutes with per-link fault/repair schedules (black holes in either direction, total loss, lost handshake replies, receiver restarts, send errors, bind failures) across the clamped timeout range and both modes; monitors for tear-down cause, retry spacing and back-off cap, bounded liveness with a precondition evaluated from the plan and the receiver model at every tick, clean rejoin, and survivors carrying the stream. Seeded sampling of fault schedules.",
   "Trusted: receiver expiry 10 s as in srtla_rec and its accept rules as modelled; bounded liveness is judged only for links whose path has no random loss, no fault left on at the end of the plan and no bind failure (not among the listed fault kinds); a delivered REG_ERR is the peer's rejection, not a sender-side tear-down. One run in seven executes the real run_sender_with_config (engine W, short horizons, no send faults): a registered uplink's socket is replaced only after the uplink has heard nothing for the configured timeout.",
   "§P-C08"),
 "C09": (True, "LW", "fault_enumeration",
   "Simulation of the real uplink receive path (handle_uplink_packet / process_uplink_packet / process_connection_events) with 50..600 adversarial datagrams per run (type codes swept over the whole 16-bit space across runs, lengths 0..1500, truncated and forged ACK/NAK/keepalive) on every uplink in every link state, before and after the client address is known, with WouldBlock and hard errors injected on the client socket; relay ledger at the client seam, liveness-stamp differential and delivery-proof rule after every step; a panic outside the simulator is a violation. Seeded sampling of inputs and histories.",
   "Trusted: SRTLA-internal is decided by type code alone; the mirrored 3-line instant-forward task; hook H4 as the only way bytes reach the client.",
   "§P-C09"),
 "C14": (True, "LW", "fault_enumeration",
   "Simulation of the real housekeeping pass and echo handling on 1..4 uplinks for up to 40 virtual seconds with late and stalled ticks, link loss and resets, failing sends, and echoes that are timely, late, duplicated, truncated, forged (zero / future / > 10 s old timestamps, trailing bytes); cadence judged tick by tick on the socket seam in virtual time, every keepalive frame reference-decoded against the link's pre-step state, and the RTT state allowed to change across a keepalive step iff a probe was outstanding and 0 < now - ts <= 10000. Seeded sampling of timed histories.",
   "Trusted: a keepalive counts as sent when handed to the socket; RTT samples from cumulative SRT ACKs are outside the statement.",
   "§P-C14"),
 "C15": (True, "L", "exploration",
   "RESTRICTED CLAIM. Wire tap over closed-loop runs: every datagram crossing the simulated network in either direction (legitimate traffic, 400 adversarial datagrams per run with type codes swept across runs, forged ACK/NAK lists with wide ranges, and a systematic corruption schedule of every known type code truncated to every length 0..24) is decoded by the real decoders and by an in-tree reference codec written from the layouts in the statement, and the results compared (type, data/R bit, SRT ACK number, bounded NAK expansion, SRTLA ACK list, keepalive timestamp and telemetry); every REG1/REG2/keepalive frame the sender emits is checked against its exact layout; decoder panics are violations.",
   "The property is a statement about pure functions of a byte string; deterministic simulation decides only the datagrams that cross the simulated network and its corruptor. Totality over all byte strings of length 0..1500 is sampled, not enumerated - enumeration/fuzzing would be a different technique family and was not substituted. NAK entries are taken to start after a 4-byte header, as in the repository's decoder, builders and tests.",
   "§P-C15"),
 "C19": (True, "LW", "fault_enumeration",
   "Simulation of reloads mid-stream through the mirrored SIGHUP arm (real analyze_ip_reload on a real temp file: missing / empty / whitespace / garbage / mixed / duplicated / IPv4+IPv6) and the real apply_connection_changes at the next tick, 1..5 reloads per run with overlapping, disjoint and equal address sets, duplicate initial addresses and injected bind failures; exact snapshots around the apply call are compared: survivors (identity, socket, full Debug state, order), removed links (list, I/O map, NAK-attribution lookups for numbers they carried), additions (once, in order), routing choice. Seeded sampling of file contents and reload sequences.",
   "Trusted: a parsable address is what std::net::IpAddr::from_str accepts after trimming; an IPv6 uplink towards the IPv4 receiver cannot be created here and may be absent after a reload. One run in six executes the real run_sender_with_config (engine W) with SIGHUP raised through hook H11 and the file rewritten mid-stream: on the wire, every new address gets exactly one socket by the next housekeeping tick, a removed link's socket never sends again, a surviving link that hears the receiver is neither re-created nor falls silent, no socket is bound for an unlisted address, and a refused file changes nothing.",
   "§P-C19"),
 "C03": (True, "KL", "exploration",
   "Timed event histories on the real core (1..4 links; REG3 / REG_ERR / tear-downs, RTT baselines, backlogs, earned and cumulative ACKs, NAKs, echoes, weak / loss-degraded / CC-target stamps, bitrates, clock advances around every boundary, configuration and guard toggles, any previous index) with routing decisions throughout; at every decision an independent usable set (REG3 since last reset, connected, heard within the timeout by the monitor's own stamps, computed from the events alone) must imply that the real select_connection_idx returns a valid index, in both modes and with every gate combination reached. Seeded sampling of histories; reach is reported as decisions with gates engaged / every link under some gate / single usable link.",
   "Trusted: state is built through the real event API; direct writes only to glue inputs (weak, loss_degraded, cc_target_bps), in-range windows and measured quantities. The few shell lines that stamp core state are mirrored. One run in twenty-one is a closed-loop run on the real shell (engine L: override, reload shrinking the link list to a stall-gated link, weak / loss-degraded stamps on every link between two ticks) in which a client datagram must be queued whenever the monitor's own usable set is non-empty.",
   "§P-C03"),
 "C06": (True, "KW", "exploration",
   "Timed histories of earned SRTLA ACKs with the global +1, raw ACK-rule calls with in-flight arguments up to i32::MAX, NAKs isolated and in bursts, time-based recovery at spacings from 0 ms to minutes and RTT velocities from negative to > 2, housekeeping ticks, mark_for_recovery / reconnect / REG3 / REG_ERR, both modes with configuration changed mid-history, from boundary and random starting windows; after every event: range [1000, 60000], direction by event kind, fast-recovery entry (<= 2000) and exit (>= 12000 or reset), 20000 after a tear-down, no change on a classic tick; arithmetic overflow is a panic, hence a violation. Inductive invariant sampled over seeded histories.",
   "Trusted: starting windows written directly but inside the range; the per-link housekeeping calls are mirrored (engine L's C10 monitor checks 'classic housekeeping changes no window' on the real shell). One run in three hundred executes the real run_sender_with_config (engine W) with run-time mode switches: while the configured mode is classic, consecutive keepalives of a link with no ACK / NAK / reset in between report the same window.",
   "§P-C06"),
 "C11": (True, "KL", "exploration",
   "Selection histories (generator shared with C03); at every enhanced-mode decision the monitor recomputes eligibility, in-flight cap, 2 % quality gate, 80 % warming weight and soft-cap factor from the pre-state with its own formulas (quality multiplier read back and range-checked in [0.35, 1.1 x 1.03]) and checks the decision relations with relative tolerance 1e-9 (chosen not skipped; capped not chosen while an unconstrained link exists; a switch needs >= 1.10x; a hold means nobody reaches 1.10x; otherwise argmax) plus idempotence on the resulting state. Seeded sampling of score space incl. equal and zero scores, stale caches, skipped previous link.",
   "Trusted: the quality multiplier value is the one the decision cached (only its range is checked); the stall-gated flag is read back right after the decision. One run in a hundred feeds the same relations from the routing decisions of closed-loop runs on the real shell (ordinary packets only; must-land packets may be overridden by the shell).",
   "§P-C11"),
 "C12": (True, "KL", "exploration",
   "Selection histories (generator shared with C03) with guard on/off toggles; around every routing decision the liveness/accounting projection of every link is compared before/after, and with the guard off every stall flag, pull and latch must be cleared and the decision must equal the decision of the real selector on a clone whose stall history was erased. Relational check sampled over seeded histories.",
   "Trusted: hook H7 (derive(Clone, Debug) under the feature, verif_clear_stall_history) reproduces / erases state faithfully. One run in twenty-one is a closed-loop run on the real shell (engine L): around every routing decision not followed by uplink datagrams in the same loop iteration, every uplink that was handed nothing keeps its projection; with the guard off all stall state is cleared and the shell's choice equals the selector's on clones with erased history (links that were handed a datagram are excluded: queueing legitimately changes their accounting).",
   "§P-C12"),
 "C13": (True, "KL", "exploration",
   "Selection histories (generator shared with C03; one event in ten expands into a tempting latch trace: backlog, proof, silence, then single ACK / drained backlog / sustained proof with or without a lapse; RTT baselines none / 20 ms .. 2 s; ceilings below the 1000 ms floor); an independent temporal monitor with its own proof / heard clocks judges every latch and pull edge and the two engagement counters. Temporal contract sampled over seeded traces.",
   "Trusted: in-flight level and smoothed RTT at a decision are read from the pre-state (they are inputs of the contract, not part of it). One run in a hundred feeds the same temporal monitor from the routing decisions of closed-loop runs on the real shell (black holes, loss, reloads).",
   "§P-C13"),
 "C16": (True, "K", "exploration",
   "Timed histories for the real LinkCcController::tick_all over real connections (RTT samples, cumulative byte / NAK counters, bitrate estimate following per-run regimes with zero / steady / 100x burst rates, ticks 1 ms .. 10 s apart, links leaving and re-entering the tick set, counter resets); after every tick, against the previous snapshot and the tick's inputs: bounds, floor until an RTT sample exists, only-these-transitions-lower-the-cap, growth <= 6 % and <= 2 x measured after seeding, loss-latch temporal rule on the reported loss average. Invariants sampled over seeded histories.",
   "Trusted: measured quantities are written directly; the loss average is the controller's own reported value (range-checked only); a drain entry clamped by the floor is accepted.",
   "§P-C16"),
 "C17": (True, "KW", "exploration",
   "Tick-by-tick histories for the real WeakLinkFilter::classify (bitrates idling, starving and crossing the bypass floor, one-tick RTT blips and sustained rises, queue building through real RTT-tracker samples, links joining / leaving / dropped from the tick set); a temporal monitor checks the five clauses of the statement. Temporal contract sampled over seeded histories.",
   "Trusted: the bitrate estimate is written directly; the delay tier is the one the classifier reports; permille rounding in the statement's favour. One run in eight hundred executes the real run_sender_with_config (engine W): a fast and a slow uplink under a steady stream above the floor, reloads that change nothing arriving meanwhile; the verdicts the loop publishes every tick (stats topic of the real hub) are judged for the probation rule and 'never weak while disconnected' - the classifier's history lives in the event loop, which engine K does not run.",
   "§P-C17"),
 "C18": (True, "TSX", "exploration",
   "RESTRICTED CLAIM. Request-line histories from 1..4 simulated control clients (stdin-style through dispatch, socket-style through dispatch_async with a real SubscriptionContext and hub), interleaved line by line by the seeded executor, with malformed-line faults (truncation at a random offset, arbitrary bytes, non-object JSON, blank lines, wrong versions, ids of every JSON type, ill-typed / missing / extreme parameters, deep nesting); per line: no panic, response well-formedness and error class against a reference reading of the statement, echo of the applied value; after every line the configuration snapshot and a get_status answer must equal a reference model (timeout clamped to 1000..60000); every non-subscription line is also sent to the other entry point on a twin configuration and must get the same answer.",
   "The totality clause is input-quantified over the whole JSON space: the simulator samples it through the line generator and does not enumerate it. Engine T interleaves at line granularity; the 'concurrent setters and snapshot readers' clause is decided by engine S: /repo/src/config.rs and control.rs are compiled into the simulator a second time with --cfg verif_shuttle, 2..4 setter / reader threads run under shuttle's seeded schedulers, and every observed timeout must lie in 1000..60000 and be a value some request applied (sequentially consistent interleavings only; weak-memory effects of the relaxed atomics are not modelled). A request is a JSON object with string members jsonrpc and method; other JSON may be answered -32700 or -32600 with any id; id null is treated as absent; duplicates of the four known members are not generated (JSON leaves them undefined). One run in a hundred and one is an engine-X run: the real per-connection task of src/control_socket.rs (hook H12) on a socket pair, request streams cut into arbitrary writes, last request with or without newline, half-closes and event bursts; the responses must equal, in order, what the synchronous dispatcher answers to the same lines (subscription methods: id only) and the configuration must end equal.",
   "§P-C18"),
 "C20": (True, "TX", "exploration",
   "Seeded interleavings (uniform-random and PCT schedules on the in-tree executor, pre-emption at every await that returns Pending and at the H8 yield points inside publish and after each lock acquisition) of 1..2 publishers and 1..3 connection tasks with bounded channels of capacity 1..8 doing subscribe / unsubscribe / drain / close; in 60% of runs every subscriber-side task outside a hub critical section is stalled for good at a seeded poll. Oracles: every publish completes without any subscriber poll; per subscription topic, own id, global id uniqueness, per-publisher order and at-most-once, subscribers agree on the order of common events; nothing whose publish was invoked after an unsubscribe returned; closed subscribers pruned by the next completed publish of their topic. Seeded sampling of schedules; the schedule is recorded and replayed.",
   "Trusted: tokio::sync::{Mutex, mpsc} internals at thread level; a task inside subscribe/unsubscribe is not stalled until it leaves the call (a slow control connection does not hold the hub lock in production either). No delivery guarantee is claimed. One run in a hundred and fifty-one is an engine-X run on the real control-socket connection task (hook H12): on the wire every event belongs to a subscription of the receiving client and per subscription the publication counters strictly increase.",
   "§P-C20"),
}
NOT_BUILT_REASON = "no check is claimed for this property in this revision of /verif (machinery not built yet; see DESIGN.md §6 for the planned decision procedure)"

def main():
    props = [json.loads(l) for l in open('/verif/properties.jsonl')]
    hooks = subprocess.run(["git", "-C", "/repo", "log", "--format=%H %s", "--grep=^verif-hooks:"], capture_output=True, text=True).stdout.strip().splitlines()
    commits = [h.split()[0] for h in hooks][::-1]
    checks, na, engines = [], [], {}
    for p in props:
        pid = p["id"]
        ent = P.get(pid)
        if not ent or not ent[0]:
            na.append({"property_id": pid, "reason": NOT_BUILT_REASON})
            continue
        _, eng, cat, text, note, ref = ent
        engines.setdefault(eng, []).append(pid)
        checks.append({
            "property_id": pid,
            "quick_cmd": f"./run.sh {pid} quick",
            "thorough_cmd": f"./run.sh {pid} thorough",
            "evidence_file": f"/verif/evidence/{pid}.json",
            "replay_cmd_template": "./run.sh replay {path}",
            "engine": ENGINE_NAME[eng],
            "level_claimed": {"category": cat, "text": text, "design_ref": ref},
            "level_note": note,
            "technique": TECH[eng],
        })
    m = {
        "version": 1,
        "setup_cmd": "./run.sh setup",
        "hooks": {
            "guard": "cargo feature `verif-hooks` (on srtla-core and srtla_send; srtla_send forwards to srtla-core)",
            "enable": "the simulator crate /verif/sim depends on /repo by path with features verif-hooks,test-internals; `cargo build --release --offline` in /verif/sim rebuilds from /repo's working tree",
            "baseline_off_cmd": "cd /repo && cargo test --workspace --no-fail-fast --offline",
            "source_commits": commits,
            "add_only": True,
        },
        "engines": [{"name": ENGINE_NAME[e], "path": "/verif/sim", "serves_properties": ids,
                     "kind_free_text": TECH[e]} for e, ids in sorted(engines.items())],
        "checks": checks,
        "notes": "Exit codes: 0 held, 1 violation (VIOLATION line + replay file), 2 harness error. Default VERIF_SEED=1. Known findings: /verif/known_findings.json (read-only at run time).",
        "not_applicable": na,
    }
    json.dump(m, open('/verif/MANIFEST.json', 'w'), indent=1)
    print(f"{len(checks)} checks, {len(na)} not claimed")

main()
