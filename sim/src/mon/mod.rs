//! Monitors (oracles) for engine L, written from the property statements.
//! Each keeps its own state; none calls the predicate under test.

pub mod c01;
pub mod c02;
pub mod c04;
pub mod c05;
pub mod c07;
pub mod c08;
pub mod c09;
pub mod c10;
pub mod c14;
pub mod c15;
pub mod c19;
pub mod refcodec;
pub mod sel_l;
pub mod setmodel;

use std::collections::HashMap;

use crate::lsim::{LinkView, StepCtx, StepKind};

pub const T_REG1: u16 = 0x9200;
pub const T_REG2: u16 = 0x9201;
pub const T_REG3: u16 = 0x9202;
pub const T_REG_ERR: u16 = 0x9210;
pub const T_REG_NGP: u16 = 0x9211;
pub const T_KEEPALIVE: u16 = 0x9000;
pub const T_SRTLA_ACK: u16 = 0x9100;
pub const T_SRT_ACK: u16 = 0x8002;
pub const T_SRT_NAK: u16 = 0x8003;

pub fn ptype(b: &[u8]) -> Option<u16> {
    if b.len() < 2 {
        None
    } else {
        Some(u16::from_be_bytes([b[0], b[1]]))
    }
}

/// Data packet per the property text: top bit of the first byte clear and a
/// 32-bit sequence number present.
pub fn data_seq(b: &[u8]) -> Option<u32> {
    if b.len() >= 4 && b[0] & 0x80 == 0 {
        Some(u32::from_be_bytes([b[0], b[1], b[2], b[3]]))
    } else {
        None
    }
}

pub fn is_rexmit(b: &[u8]) -> bool {
    b.len() >= 8 && b[0] & 0x80 == 0 && b[4] & 0x04 != 0
}

/// Independent per-link record of the facts eligibility depends on, driven
/// only by what the monitor sees delivered and torn down.
#[derive(Clone, Debug)]
pub struct TruthLink {
    /// A REG3 was delivered on this link since its last reset.
    pub registered: bool,
    /// Has the link ever completed registration (survives resets)?
    pub ever_registered: bool,
    /// A sender-side reset (tear-down) happened after the link's last completed registration.
    pub reset_since_registered: bool,
    /// When the link was last heard (any >= 2-byte datagram that is not a
    /// REG2 / REG_NGP / REG_ERR reply; a REG3 counts).
    pub heard_at: Option<u64>,
    /// Liveness timeout the sender last copied onto the link.
    pub applied_timeout: u64,
    pub fd: Option<i32>,
    pub resets: u64,
    pub last_reset_step: u64,
}

impl Default for TruthLink {
    fn default() -> Self {
        TruthLink {
            registered: false,
            ever_registered: false,
            reset_since_registered: false,
            heard_at: None,
            applied_timeout: 5000,
            fd: None,
            resets: 0,
            last_reset_step: 0,
        }
    }
}

#[derive(Default)]
pub struct Truth {
    pub links: HashMap<u64, TruthLink>,
    /// Links that were torn down (socket replaced, connected fell, removed) in the last step.
    pub torn_down_now: Vec<u64>,
    pub removed_now: Vec<u64>,
    pub reg_err_now: Vec<u64>,
}

impl Truth {
    /// Apply one step. Call once per step, before using the queries.
    pub fn update(&mut self, ctx: &StepCtx<'_>) {
        self.torn_down_now.clear();
        self.removed_now.clear();
        for v in ctx.pre {
            let e = self.links.entry(v.conn_id).or_default();
            if e.fd.is_none() {
                e.fd = v.fd;
            }
        }
        // A routing decision copies the configured timeout onto every link.
        if let StepKind::Client(Some(b)) = ctx.kind
            && !b.is_empty()
            && ctx.has_connected_pre
        {
            for v in ctx.pre {
                if let Some(e) = self.links.get_mut(&v.conn_id) {
                    e.applied_timeout = ctx.cfg.conn_timeout_ms;
                }
            }
        }
        // A delivered REG_ERR makes `connected` fall without resetting the link.
        self.reg_err_now = ctx
            .uplink
            .iter()
            .filter(|(_, b)| ptype(b) == Some(T_REG_ERR))
            .map(|(c, _)| *c)
            .collect();
        // Tear-downs in the arm's main action.
        self.note_teardowns(ctx.pre, ctx.mid, ctx.idx);
        // A failed threshold / probe flush in the client arm marks the link for recovery; on a link
        // that is already disconnected none of the observed fields moves, but its accounting is
        // reset all the same (the timer flush of the flush arm does not reset anything).
        if matches!(ctx.kind, StepKind::Client(_)) {
            for w in &ctx.wire[..ctx.wire_mid] {
                if w.call == srtla_send::net::verif_hooks::UplinkCall::SendBatch
                    && w.injected_fault
                    && !matches!(w.result, Ok(n) if n > 0)
                    && let Some(v) = ctx.pre.iter().find(|v| v.fd == Some(w.fd))
                {
                    let e = self.links.entry(v.conn_id).or_default();
                    if e.ever_registered {
                        e.reset_since_registered = true;
                    }
                    e.registered = false;
                    e.heard_at = None;
                    if !self.torn_down_now.contains(&v.conn_id) {
                        e.resets += 1;
                        e.last_reset_step = ctx.idx;
                        self.torn_down_now.push(v.conn_id);
                    }
                }
            }
        }
        // Deliveries, in order.
        for (conn_id, b) in ctx.uplink {
            if ctx.post.iter().all(|v| v.conn_id != *conn_id) && ctx.mid.iter().all(|v| v.conn_id != *conn_id) {
                continue;
            }
            let Some(t) = ptype(b) else { continue };
            let e = self.links.entry(*conn_id).or_default();
            match t {
                T_REG3 => {
                    e.registered = true;
                    e.reset_since_registered = false;
                    e.ever_registered = true;
                    e.heard_at = Some(ctx.now);
                }
                T_REG_ERR => {
                    e.registered = false;
                    e.heard_at = None;
                }
                T_REG2 | T_REG_NGP => {}
                _ => e.heard_at = Some(ctx.now),
            }
        }
        // Tear-downs during the trailing drain (send failure of an immediate REG1 does not tear down).
        self.note_teardowns(ctx.mid, ctx.post, ctx.idx);
        for v in ctx.post {
            let e = self.links.entry(v.conn_id).or_default();
            e.fd = v.fd;
        }
        for v in ctx.pre {
            if ctx.post.iter().all(|p| p.conn_id != v.conn_id) {
                self.removed_now.push(v.conn_id);
                self.links.remove(&v.conn_id);
            }
        }
    }

    fn note_teardowns(&mut self, a: &[LinkView], b: &[LinkView], step: u64) {
        for va in a {
            let Some(vb) = b.iter().find(|x| x.conn_id == va.conn_id) else {
                continue;
            };
            let socket_replaced = va.fd != vb.fd;
            let fell = va.connected && !vb.connected && !self.reg_err_now.contains(&va.conn_id);
            let reattempt = va.last_attempt_ms != vb.last_attempt_ms;
            if socket_replaced || fell || reattempt {
                let e = self.links.entry(va.conn_id).or_default();
                // A REG_ERR delivery also makes `connected` fall; it is handled in order above.
                if socket_replaced || reattempt || fell {
                    if e.ever_registered {
                        e.reset_since_registered = true;
                    }
                    e.registered = false;
                    e.heard_at = None;
                    e.resets += 1;
                    e.last_reset_step = step;
                    if !self.torn_down_now.contains(&va.conn_id) {
                        self.torn_down_now.push(va.conn_id);
                    }
                }
            }
        }
    }

    pub fn silent_for(&self, conn_id: u64, now: u64) -> Option<u64> {
        self.links
            .get(&conn_id)
            .and_then(|l| l.heard_at)
            .map(|h| now.saturating_sub(h))
    }

    /// Usable at a routing decision: the selector copies the configured
    /// timeout onto the links first, so that value is the one in force.
    pub fn usable_at_decision(&self, v: &LinkView, now: u64, cfg_timeout: u64) -> bool {
        let Some(l) = self.links.get(&v.conn_id) else {
            return false;
        };
        l.registered
            && v.connected
            && l.heard_at.is_some_and(|h| now.saturating_sub(h) < cfg_timeout)
    }

    /// Usable under every timeout value that may be in force (strict).
    pub fn usable_strict(&self, v: &LinkView, now: u64, cfg_timeout: u64) -> bool {
        let Some(l) = self.links.get(&v.conn_id) else {
            return false;
        };
        let t = l.applied_timeout.min(cfg_timeout);
        l.registered
            && v.connected
            && l.heard_at.is_some_and(|h| now.saturating_sub(h) < t)
    }

    /// Eligible under at least one timeout value that may be in force (lenient).
    pub fn usable_lenient(&self, v: &LinkView, now: u64, cfg_timeout: u64) -> bool {
        let Some(l) = self.links.get(&v.conn_id) else {
            return false;
        };
        let t = l.applied_timeout.max(cfg_timeout);
        l.registered
            && v.connected
            && l.heard_at.is_some_and(|h| now.saturating_sub(h) < t)
    }
}
