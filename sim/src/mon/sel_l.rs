//! Engine-L adapters for the selection monitors of engine K: every routing
//! decision of a closed-loop run (a client step after the session is established)
//! is turned into a `SelectObs` and judged by the same C11 / C13 code, on
//! reachability-faithful histories (black holes, silence, re-registration).
//!
//! The liveness and proof clocks come from the link state before the step; that
//! those stamps are right is C09's business.

use srtla_core::connection::SrtlaConnection;

use super::{Truth, data_seq, is_rexmit};
use crate::ksim::SelectObs;
use crate::ksim::sel::{C11, C13, OwnLink};
use crate::lsim::{MonOut, Monitor, StepCtx, StepKind};

fn own_links(ctx: &StepCtx<'_>, truth: &Truth, pre: &[SrtlaConnection], reset: &[u64]) -> Vec<OwnLink> {
    pre.iter()
        .map(|c| OwnLink {
            registered: truth.links.get(&c.conn_id).is_some_and(|l| l.registered),
            connected: c.connected,
            heard_at: c.last_received,
            proof_at: (c.last_ack_or_rtt_sample_ms != 0).then_some(c.last_ack_or_rtt_sample_ms),
            reset_since_select: reset.contains(&c.conn_id),
        })
        .inspect(|_| {
            let _ = ctx;
        })
        .collect()
}

fn decision<'a>(ctx: &'a StepCtx<'_>) -> Option<(&'a [SrtlaConnection], &'a [u8])> {
    let StepKind::Client(Some(bytes)) = ctx.kind else { return None };
    if bytes.is_empty() || !ctx.has_connected_pre {
        return None;
    }
    ctx.pre_full.map(|p| (p, bytes.as_slice()))
}

#[derive(Default)]
pub struct C13L {
    truth: Truth,
    inner: C13,
    reset_since: Vec<u64>,
    /// latch bookkeeping per link identity (a reload re-orders and resizes the list)
    by_id: std::collections::HashMap<u64, crate::ksim::sel::Latch>,
}

impl C13L {
    pub fn new() -> Self {
        Self::default()
    }
}

impl Monitor for C13L {
    fn wants_full_pre(&self, kind: &StepKind) -> bool {
        matches!(kind, StepKind::Client(Some(_)))
    }
    fn on_step(&mut self, ctx: &StepCtx<'_>, out: &mut MonOut) {
        if let Some((pre, _)) = decision(ctx)
            && pre.len() == ctx.world.conns.len()
            && pre.iter().zip(ctx.world.conns.iter()).all(|(a, b)| a.conn_id == b.conn_id)
        {
            // a link first seen here starts from its own life-long counters
            self.inner.st = pre
                .iter()
                .map(|c| {
                    self.by_id.get(&c.conn_id).cloned().unwrap_or_else(|| {
                        let mut l = crate::ksim::sel::Latch::default();
                        l.gate_events = c.stall_gate_events();
                        l.pulls = c.silence_pulls();
                        l
                    })
                })
                .collect();
            self.inner.own.links = own_links(ctx, &self.truth, pre, &self.reset_since);
            // the duplicate probes queued after the decision do not touch guard state other than
            // the probe counter, so the post-step state carries what the decision computed
            // the guard's thresholds are start-up settings: they are what the plan configured,
            // whatever the implementation's snapshot says at this decision
            let mut cfg = ctx.cfg;
            cfg.stall_ack_stale_ms = ctx.plan.cfg.stall_ack_stale_ms;
            cfg.stall_min_in_flight = ctx.plan.cfg.stall_min_in_flight;
            if ctx.cfg.stall_ack_stale_ms != cfg.stall_ack_stale_ms || ctx.cfg.stall_min_in_flight != cfg.stall_min_in_flight {
                out.violate(
                    "C13.window",
                    "configured_thresholds_not_in_force",
                    ctx.idx,
                    format!("the guard was configured with ceiling {} ms / threshold {}, the snapshot this decision runs on says {} ms / {} (liveness timeout {} ms)", cfg.stall_ack_stale_ms, cfg.stall_min_in_flight, ctx.cfg.stall_ack_stale_ms, ctx.cfg.stall_min_in_flight, ctx.cfg.conn_timeout_ms),
                );
            }
            let obs = SelectObs {
                last: ctx.last_selected_pre,
                result: ctx.world.last_selected_idx,
                pre: pre.to_vec(),
                post: ctx.world.conns.iter().cloned().collect(),
                now: ctx.now,
                cfg,
            };
            self.inner.judge(&obs, ctx.idx, out);
            for (c, st) in pre.iter().zip(self.inner.st.iter()) {
                self.by_id.insert(c.conn_id, st.clone());
            }
            self.reset_since.clear();
            out.stats.inc("c13l.decisions");
        }
        self.truth.update(ctx);
        for c in &self.truth.torn_down_now {
            if !self.reset_since.contains(c) {
                self.reset_since.push(*c);
            }
        }
    }
}

#[derive(Default)]
pub struct C11L {
    truth: Truth,
    inner: C11,
    /// Identity of the uplink the shell recorded as its choice after the last client step.
    prev_choice: Option<u64>,
}

impl C11L {
    pub fn new() -> Self {
        Self::default()
    }
}

impl Monitor for C11L {
    fn wants_full_pre(&self, kind: &StepKind) -> bool {
        matches!(kind, StepKind::Client(Some(_)))
    }
    fn on_step(&mut self, ctx: &StepCtx<'_>, out: &mut MonOut) {
        // "The previous uplink" is an identity, not a position: whatever happened between two
        // decisions (a reload re-ordering the list, tear-downs), the hysteresis anchor a decision
        // starts from names the uplink chosen last - or nothing.
        if let StepKind::Client(Some(_)) = ctx.kind {
            if let (Some(i), Some(prev)) = (ctx.last_selected_pre, self.prev_choice) {
                let named = ctx.pre.get(i).map(|v| v.conn_id);
                if named != Some(prev) {
                    out.violate(
                        "C11.hysteresis",
                        "anchor_names_another_link",
                        ctx.idx,
                        format!("the previous choice was uplink {prev:x}, but the decision starts from index {i} = {named:x?}"),
                    );
                }
                out.probe("c11l.anchor_checked");
            }
        }
        if let Some((pre, bytes)) = decision(ctx)
            && !ctx.cfg.mode.is_classic()
            && pre.len() == ctx.world.conns.len()
        {
            // only packets the scheduler alone decides (the must-land override may replace its choice)
            let must_land = data_seq(bytes).is_some() && (ctx.critical_pre || is_rexmit(bytes));
            // the own model's liveness is the monitor's (Truth), not the implementation's stamp
            let mut links = own_links(ctx, &self.truth, pre, &[]);
            for (l, c) in links.iter_mut().zip(pre.iter()) {
                l.heard_at = self.truth.links.get(&c.conn_id).and_then(|t| t.heard_at);
            }
            let placed = ctx.pre.iter().zip(ctx.mid.iter()).any(|(p, m)| m.queued != p.queued || ctx.wire[..ctx.wire_mid].iter().any(|w| Some(w.fd) == p.fd));
            if !must_land {
                self.inner.own.links = links;
                let obs = SelectObs {
                    last: ctx.last_selected_pre,
                    result: if placed { ctx.world.last_selected_idx } else { None },
                    pre: pre.to_vec(),
                    post: ctx.world.conns.iter().cloned().collect(),
                    now: ctx.now,
                    cfg: ctx.cfg,
                };
                // the step also queued the packet: undo that on the copy used for the idempotence re-run
                self.inner.judge_select_no_idempotence(&obs, ctx.idx, out);
                out.stats.inc("c11l.decisions");
            }
        }
        if let StepKind::Client(dg) = ctx.kind {
            // "the previous uplink" is the one the previous datagram was really handed to (its
            // unique copy: the scheduler's pick or the override's), by the monitor's own observation
            let placed: Vec<u64> = ctx
                .pre
                .iter()
                .filter(|p| {
                    crate::lsim::find_view(ctx.mid, p.conn_id).is_some_and(|m| m.queued != p.queued || ctx.wire[..ctx.wire_mid].iter().any(|w| Some(w.fd) == p.fd))
                })
                .map(|p| p.conn_id)
                .collect();
            let named = ctx.world.last_selected_idx.and_then(|i| ctx.world.conns.get(i)).map(|c| c.conn_id);
            if dg.as_ref().is_some_and(|b| !b.is_empty()) && ctx.has_connected_pre {
                self.prev_choice = match placed.len() {
                    0 => self.prev_choice,
                    1 => Some(placed[0]),
                    // duplicate probes went out as well: the unique copy is the one the shell names, if it is among them
                    _ => named.filter(|n| placed.contains(n)),
                };
                if placed.len() == 1 && named != Some(placed[0]) {
                    out.probe("c11l.shell_anchor_differs_from_carrier");
                }
            } else {
                self.prev_choice = named;
            }
        }
        if ctx.reload_snap.is_some_and(|_| matches!(ctx.kind, StepKind::Housekeeping)) && ctx.world.last_selected_idx.is_none() {
            out.probe("c11l.anchor_reset_by_reload");
        }
        self.truth.update(ctx);
    }
}

/// C03 on engine L: while the monitor's own usable set is non-empty, a client
/// datagram is queued somewhere - whatever the gates, the override and a reload did.
#[derive(Default)]
pub struct C03L {
    truth: Truth,
}

impl C03L {
    pub fn new() -> Self {
        Self::default()
    }
}

impl Monitor for C03L {
    fn on_step(&mut self, ctx: &StepCtx<'_>, out: &mut MonOut) {
        if let StepKind::Client(Some(bytes)) = ctx.kind
            && !bytes.is_empty()
            && ctx.has_connected_pre
        {
            let usable: Vec<u64> = ctx
                .pre
                .iter()
                .filter(|v| self.truth.usable_at_decision(v, ctx.now, ctx.cfg.conn_timeout_ms))
                .map(|v| v.conn_id)
                .collect();
            if !usable.is_empty() {
                out.probe("c03l.decision_with_usable_link");
                if ctx.pre.iter().filter(|v| usable.contains(&v.conn_id)).all(|v| v.weak || v.loss_degraded) {
                    out.probe("c03l.every_usable_link_quality_gated");
                }
                if ctx.pre.len() == 1 {
                    out.probe("c03l.single_link_left");
                }
                let must_land = data_seq(bytes).is_some() && (ctx.critical_pre || is_rexmit(bytes));
                let placed = ctx.pre.iter().any(|p| {
                    crate::lsim::find_view(ctx.mid, p.conn_id)
                        .is_some_and(|m| m.queued != p.queued || ctx.wire[..ctx.wire_mid].iter().any(|w| Some(w.fd) == p.fd))
                });
                if !placed {
                    out.violate(
                        "C03.blackout",
                        if must_land { "shell/must_land_packet" } else { "shell/plain_packet" },
                        ctx.idx,
                        format!(
                            "usable uplinks {:x?} but the client datagram ({} bytes{}) was dropped; links: {}",
                            usable,
                            bytes.len(),
                            if must_land { ", must-land" } else { "" },
                            ctx.mid
                                .iter()
                                .map(|v| format!("[{:x} conn={} gated={} weak={} lossdeg={} if={}]", v.conn_id & 0xffff, v.connected, v.private.stall_gated, v.weak, v.loss_degraded, v.in_flight))
                                .collect::<Vec<_>>()
                                .join(" ")
                        ),
                    );
                }
            }
        }
        self.truth.update(ctx);
    }
}

/// C12 on engine L: a routing decision made by the real shell (selector, override, duplicate
/// probes, batch queueing) leaves the liveness / accounting state of every uplink it did not hand a
/// datagram to untouched; with the guard off every stall flag is cleared and the choice equals the
/// real selector's on the same links with their stall history erased.
#[derive(Default)]
pub struct C12L;

impl C12L {
    pub fn new() -> Self {
        Self
    }
}

impl Monitor for C12L {
    fn wants_full_pre(&self, kind: &StepKind) -> bool {
        matches!(kind, StepKind::Client(Some(_)))
    }
    fn on_step(&mut self, ctx: &StepCtx<'_>, out: &mut MonOut) {
        let Some((pre, bytes)) = decision(ctx) else { return };
        // the trailing drain of the same step handles uplink datagrams, which do change accounting
        if !ctx.uplink.is_empty() || pre.len() != ctx.world.conns.len() {
            return;
        }
        out.stats.inc("c12l.decisions");
        for (i, b) in ctx.world.conns.iter().enumerate() {
            if let Some(msg) = crate::ksim::sel::liveness_depends_on_guard(b, ctx.now) {
                out.violate("C12.state_touched", "liveness_verdict_shell", ctx.idx, format!("link {i}: {msg}"));
            }
            if b.verif_private().conn_timeout_ms > 5000 && b.verif_private().stall_latched_since_ms != 0 && b.last_received.is_some_and(|t| ctx.now.saturating_sub(t) > 5000) {
                out.probe("c12l.latched_silent_beyond_default_timeout");
            }
        }
        let got_something = |i: usize| {
            let (p, m) = (&ctx.pre[i], &ctx.mid[i]);
            m.queued != p.queued || ctx.wire.iter().any(|w| Some(w.fd) == p.fd)
        };
        for (i, (a, b)) in pre.iter().zip(ctx.world.conns.iter()).enumerate() {
            if a.conn_id != b.conn_id || got_something(i) {
                continue;
            }
            let (pa, pb) = (crate::ksim::sel::accounting_projection(a), crate::ksim::sel::accounting_projection(b));
            if pa != pb {
                out.violate(
                    "C12.state_touched",
                    "shell",
                    ctx.idx,
                    format!("a routing decision changed liveness/accounting state of link {i}, which was handed nothing:\n before {pa}\n after  {pb}"),
                );
            }
            let (va, vb) = (a.verif_private(), b.verif_private());
            if va.stall_gated != vb.stall_gated || va.silence_pulled != vb.silence_pulled || va.stall_latched_since_ms != vb.stall_latched_since_ms {
                out.probe("c12l.guard_state_moved");
            }
        }
        if !ctx.cfg.stall_deselect {
            out.probe("c12l.guard_off_decision");
            for (i, b) in ctx.world.conns.iter().enumerate() {
                let p = b.verif_private();
                if p.stall_gated || p.silence_pulled || p.stall_latched_since_ms != 0 || p.stall_recovery_since_ms != 0 {
                    out.violate("C12.guard_off", "flags_shell", ctx.idx, format!("guard off but link {i} keeps stall state {p:?}"));
                }
            }
            let must_land = data_seq(bytes).is_some() && (ctx.critical_pre || is_rexmit(bytes));
            let placed = (0..pre.len()).any(got_something);
            if !must_land && placed {
                if pre.iter().any(|c| c.last_ack_or_rtt_sample_ms != 0 || c.verif_private().stall_gate_events != 0) {
                    out.probe("c12l.guard_off_with_history");
                }
                let mut clean: Vec<SrtlaConnection> = pre.to_vec();
                for c in clean.iter_mut() {
                    c.verif_clear_stall_history();
                }
                let baseline = srtla_core::selection::select_connection_idx(&mut clean, ctx.last_selected_pre, ctx.now, &ctx.cfg);
                if baseline != ctx.world.last_selected_idx {
                    out.violate(
                        "C12.guard_off",
                        "decision_shell",
                        ctx.idx,
                        format!("guard off: the shell routed to {:?}, the selector on the same links without stall history picks {:?}", ctx.world.last_selected_idx, baseline),
                    );
                }
            }
        }
    }
}
