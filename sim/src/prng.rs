//! In-tree PRNG so that no crate upgrade can change a replay.
//! splitmix64 for seeding / counter-based hashing, xoshiro256** for streams.

#[inline]
pub fn splitmix64(mut x: u64) -> u64 {
    x = x.wrapping_add(0x9E37_79B9_7F4A_7C15);
    let mut z = x;
    z = (z ^ (z >> 30)).wrapping_mul(0xBF58_476D_1CE4_E5B9);
    z = (z ^ (z >> 27)).wrapping_mul(0x94D0_49BB_1331_11EB);
    z ^ (z >> 31)
}

/// Counter-based draw: value `counter` of stream `stream` of run `seed`.
/// Independent of how many other draws happened, which keeps unrelated
/// randomness stable while a plan is being minimised.
#[inline]
pub fn hash3(seed: u64, stream: u64, counter: u64) -> u64 {
    splitmix64(splitmix64(splitmix64(seed) ^ stream.wrapping_mul(0xA24B_AED4_963E_E407)) ^ counter)
}

/// Seed of run `index` of property `prop` under batch seed `seed`.
pub fn run_seed(seed: u64, prop: &str, index: u64) -> u64 {
    let mut h = splitmix64(seed);
    for b in prop.bytes() {
        h = splitmix64(h ^ b as u64);
    }
    splitmix64(h ^ index.wrapping_mul(0x9E37_79B9_7F4A_7C15))
}

#[derive(Clone, Debug)]
pub struct Rng {
    s: [u64; 4],
}

impl Rng {
    pub fn new(seed: u64) -> Self {
        let mut x = seed;
        let mut s = [0u64; 4];
        for v in s.iter_mut() {
            x = splitmix64(x);
            *v = x;
        }
        if s == [0; 4] {
            s[0] = 1;
        }
        Rng { s }
    }

    #[inline]
    pub fn next_u64(&mut self) -> u64 {
        let result = self.s[1].wrapping_mul(5).rotate_left(7).wrapping_mul(9);
        let t = self.s[1] << 17;
        self.s[2] ^= self.s[0];
        self.s[3] ^= self.s[1];
        self.s[1] ^= self.s[2];
        self.s[0] ^= self.s[3];
        self.s[2] ^= t;
        self.s[3] = self.s[3].rotate_left(45);
        result
    }

    /// Uniform in `0..n` (n > 0).
    #[inline]
    pub fn below(&mut self, n: u64) -> u64 {
        debug_assert!(n > 0);
        ((self.next_u64() as u128 * n as u128) >> 64) as u64
    }

    /// Uniform in `lo..=hi`.
    #[inline]
    pub fn range(&mut self, lo: u64, hi: u64) -> u64 {
        debug_assert!(lo <= hi);
        lo + self.below(hi - lo + 1)
    }

    #[inline]
    pub fn range_i(&mut self, lo: i64, hi: i64) -> i64 {
        lo + self.below((hi - lo + 1) as u64) as i64
    }

    #[inline]
    pub fn f64(&mut self) -> f64 {
        (self.next_u64() >> 11) as f64 / (1u64 << 53) as f64
    }

    #[inline]
    pub fn chance(&mut self, p: f64) -> bool {
        self.f64() < p
    }

    pub fn pick<'a, T>(&mut self, xs: &'a [T]) -> &'a T {
        &xs[self.below(xs.len() as u64) as usize]
    }

    pub fn fill(&mut self, buf: &mut [u8]) {
        for chunk in buf.chunks_mut(8) {
            let v = self.next_u64().to_le_bytes();
            chunk.copy_from_slice(&v[..chunk.len()]);
        }
    }

    pub fn fork(&mut self) -> Rng {
        Rng::new(self.next_u64())
    }
}

/// `p` as a probability decided by a counter-based draw.
#[inline]
pub fn chance3(seed: u64, stream: u64, counter: u64, p: f64) -> bool {
    if p <= 0.0 {
        return false;
    }
    ((hash3(seed, stream, counter) >> 11) as f64 / (1u64 << 53) as f64) < p
}

/// FNV-1a style rolling hash for event logs (no allocation, order-sensitive).
#[derive(Clone, Copy, Debug)]
pub struct LogHash(pub u64);

impl Default for LogHash {
    fn default() -> Self {
        LogHash(0xcbf2_9ce4_8422_2325)
    }
}

impl LogHash {
    #[inline]
    pub fn u64(&mut self, v: u64) {
        self.0 = (self.0 ^ v).wrapping_mul(0x0000_0100_0000_01B3);
        self.0 ^= self.0 >> 29;
    }
    #[inline]
    pub fn bytes(&mut self, b: &[u8]) {
        self.u64(b.len() as u64);
        for chunk in b.chunks(8) {
            let mut w = [0u8; 8];
            w[..chunk.len()].copy_from_slice(chunk);
            self.u64(u64::from_le_bytes(w));
        }
    }
}
