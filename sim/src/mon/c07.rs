//! C07 — two-phase registration: wire-level protocol monitor.

use std::collections::HashMap;

use srtla_send::net::verif_hooks::UplinkCall;

use super::{T_REG_ERR, T_REG_NGP, T_REG1, T_REG2, T_REG3, ptype};
use crate::lsim::plan::LPlan;
use crate::lsim::{MonOut, Monitor, StepCtx, StepKind, World, abstract_state, find_view};

const M: &str = "C07";

pub struct C07 {
    adopted: [u8; 256],
    /// Uplink whose REG1 awaits its REG2, and when it was (last) sent.
    outstanding: Option<(u64, u64)>,
    broadcast_due: bool,
    clean_run: bool,
    horizon_ms: u64,
    start_ms: u64,
    /// Uplinks that were connected when the last housekeeping pass ended (before its drain).
    connected_at_last_tick: Vec<u64>,
}

impl C07 {
    pub fn new() -> Self {
        C07 {
            adopted: [0; 256],
            outstanding: None,
            broadcast_due: false,
            clean_run: false,
            horizon_ms: 0,
            start_ms: 0,
            connected_at_last_tick: Vec::new(),
        }
    }
}

impl Monitor for C07 {
    fn on_start(&mut self, world: &World, plan: &LPlan) {
        self.adopted = world.reg.srtla_id;
        self.horizon_ms = plan.horizon_ms;
        self.start_ms = plan.time_base_ms;
        self.clean_run = plan.recv.mode == "coop"
            && plan.links.iter().all(|l| l.loss_up == 0.0 && l.loss_down == 0.0 && l.lat_ms <= 250)
            && plan.cfg.conn_timeout_ms >= 5000
            && plan.actions.iter().all(|a| {
                matches!(
                    a.kind,
                    crate::lsim::plan::Action::Burst { .. }
                        | crate::lsim::plan::Action::Rexmit { .. }
                        | crate::lsim::plan::Action::ClientControl { .. }
                        | crate::lsim::plan::Action::Critical { .. }
                )
            });
    }

    fn on_step(&mut self, ctx: &StepCtx<'_>, out: &mut MonOut) {
        let conn_of_fd = |fd: i32| -> Option<u64> {
            ctx.post
                .iter()
                .chain(ctx.mid.iter())
                .chain(ctx.pre.iter())
                .find(|v| v.fd == Some(fd))
                .map(|v| v.conn_id)
        };
        let mut expired_now = false;
        let mut reg1_sent = false;
        let mut reg_err_seen = false;
        let broadcast_expected = self.broadcast_due;

        // ---- housekeeping starts by abandoning an unanswered REG1 after 4 s ----
        if matches!(ctx.kind, StepKind::Housekeeping)
            && let Some((_, t)) = self.outstanding
            && ctx.now >= t + 4000
        {
            self.outstanding = None;
            expired_now = true;
            out.probe("c07.reg1_timed_out");
        }

        // ---- deliveries (one per step in these runs) happen before any answer ----
        for (c, b) in ctx.uplink {
            match ptype(b) {
                Some(T_REG2) => {
                    out.probe("c07.reg2_delivered");
                    if b.len() >= 258 && self.outstanding.map(|o| o.0) == Some(*c) {
                        self.adopted.copy_from_slice(&b[2..258]);
                        self.outstanding = None;
                        self.broadcast_due = true;
                        out.probe("c07.reg2_accepted");
                    } else if b.len() < 258 {
                        out.probe("c07.reg2_short");
                    } else if self.outstanding.is_some() {
                        out.probe("c07.reg2_wrong_link");
                    } else {
                        out.probe("c07.reg2_late_or_unsolicited");
                    }
                }
                Some(T_REG_ERR) => {
                    out.probe("c07.reg_err_delivered");
                    self.outstanding = None;
                    reg_err_seen = true;
                }
                Some(T_REG_NGP) => out.probe("c07.reg_ngp_delivered"),
                Some(T_REG3) => out.probe("c07.reg3_delivered"),
                _ => {}
            }
        }

        // ---- what the sender put on the wire ----
        let mut reg2_count: HashMap<u64, u32> = HashMap::new();
        for w in ctx.wire {
            if w.call != UplinkCall::Send {
                continue;
            }
            let d = &w.offered[0];
            let Some(link) = conn_of_fd(w.fd) else { continue };
            match ptype(d) {
                Some(T_REG1) => {
                    out.probe("c07.reg1_sent");
                    reg1_sent = true;
                    if d.len() != 258 || d[2..] != self.adopted[..] {
                        out.violate(&format!("{M}.id"), "reg1", ctx.idx, format!("REG1 on link {link:x} does not carry the adopted id"));
                    }
                    match self.outstanding {
                        Some((l2, _)) if l2 != link => {
                            out.violate(
                                &format!("{M}.two_reg1"),
                                "",
                                ctx.idx,
                                format!("REG1 sent on link {link:x} while the REG1 on link {l2:x} is still outstanding"),
                            );
                        }
                        Some(_) => out.probe("c07.reg1_resend_same_link"),
                        None => {
                            if matches!(ctx.kind, StepKind::Housekeeping) {
                                // the driver: only while no uplink is registered
                                if ctx.mid.iter().any(|v| v.connected) {
                                    out.violate(
                                        &format!("{M}.driver_reg1"),
                                        "",
                                        ctx.idx,
                                        format!("registration driver sent REG1 on link {link:x} while an uplink is connected"),
                                    );
                                }
                                out.probe("c07.driver_reg1");
                            } else {
                                out.probe("c07.immediate_reg1");
                                // the REG1 that answers a REG_NGP at once: the sender counts its
                                // registered uplinks once per housekeeping pass, so the rule is
                                // judged against the links that were connected at the end of the
                                // last pass and still are
                                let still: Vec<u64> = self.connected_at_last_tick.iter().copied().filter(|c| ctx.pre.iter().any(|v| v.conn_id == *c && v.connected)).collect();
                                if !still.is_empty() {
                                    out.violate(
                                        &format!("{M}.driver_reg1"),
                                        "immediate_while_registered",
                                        ctx.idx,
                                        format!("a group-creating REG1 answered a REG_NGP on link {link:x} although uplink(s) {still:x?} have been registered since before the last housekeeping pass"),
                                    );
                                }
                            }
                        }
                    }
                    self.outstanding = Some((link, ctx.now));
                }
                Some(T_REG2) => {
                    if ctx.idx == 1 && d[2..] != self.adopted[..] {
                        out.probe("c07.startup_probe");
                        continue;
                    }
                    if d.len() != 258 || d[2..] != self.adopted[..] {
                        out.violate(&format!("{M}.id"), "reg2", ctx.idx, format!("registration REG2 on link {link:x} does not carry the adopted id"));
                    }
                    *reg2_count.entry(link).or_insert(0) += 1;
                }
                _ => {}
            }
        }
        // ---- REG2 rounds ----
        if matches!(ctx.kind, StepKind::Housekeeping) {
            for v in ctx.mid {
                let n = reg2_count.get(&v.conn_id).copied().unwrap_or(0);
                let reattempt = find_view(ctx.pre, v.conn_id).is_some_and(|p| p.last_attempt_ms != v.last_attempt_ms);
                let lo = broadcast_expected as u32;
                let hi = lo + reattempt as u32;
                if v.fd.is_some() && (n < lo || n > hi) {
                    out.violate(
                        &format!("{M}.reg2_round"),
                        if n < lo { "missing" } else { "extra" },
                        ctx.idx,
                        format!(
                            "link {:x}: {n} REG2 this tick; broadcast due={broadcast_expected}, link re-attempted={reattempt}",
                            v.conn_id
                        ),
                    );
                }
            }
            if broadcast_expected {
                self.broadcast_due = false;
                out.probe("c07.broadcast_round");
            }
        } else if !reg2_count.is_empty() {
            out.violate(&format!("{M}.reg2_round"), "outside_tick", ctx.idx, "REG2 sent outside a housekeeping pass".into());
        }

        // ---- state after the step ----
        if ctx.world.reg.srtla_id != self.adopted {
            out.violate(
                &format!("{M}.adopted_id"),
                "",
                ctx.idx,
                "the group id changed without a full-length REG2 on the uplink whose REG1 is outstanding (or was not adopted from one)".into(),
            );
            self.adopted = ctx.world.reg.srtla_id;
        }
        for post in ctx.post {
            if let Some(pre) = find_view(ctx.pre, post.conn_id)
                && !pre.connected
                && post.connected
            {
                out.probe("c07.connected_rise");
                let by_reg3 = ctx.uplink.iter().any(|(c, b)| *c == post.conn_id && ptype(b) == Some(T_REG3));
                if !by_reg3 {
                    out.violate(&format!("{M}.connected"), "", ctx.idx, format!("link {:x} became connected without a REG3 on it", post.conn_id));
                }
            }
        }
        let real_pending = ctx
            .world
            .reg
            .pending_reg2_idx()
            .and_then(|i| ctx.post.get(i))
            .map(|v| v.conn_id);
        if reg_err_seen && !reg1_sent && ctx.world.reg.pending_reg2_idx().is_some() {
            out.violate(&format!("{M}.reg_err"), "", ctx.idx, "a REG_ERR did not cancel the pending attempt".into());
        }
        if expired_now && !reg1_sent && ctx.world.reg.pending_reg2_idx().is_some() {
            out.violate(&format!("{M}.timeout"), "", ctx.idx, "an unanswered REG1 was not abandoned at the first tick 4000 ms after it".into());
        }
        if real_pending != self.outstanding.map(|o| o.0) {
            out.violate(
                &format!("{M}.pending_state"),
                "",
                ctx.idx,
                format!("manager reports pending REG2 on {:x?}, wire history says {:x?}", real_pending, self.outstanding.map(|o| o.0)),
            );
            self.outstanding = real_pending.map(|c| (c, ctx.now));
        }
        if matches!(ctx.kind, StepKind::Housekeeping) {
            self.connected_at_last_tick = ctx.mid.iter().filter(|v| v.connected).map(|v| v.conn_id).collect();
        }
        if ctx.idx % 4 == 0 {
            out.states.push(abstract_state(ctx.post, ctx.now, &ctx.world.reg));
        }
    }

    fn on_finish(&mut self, world: &World, _env: &crate::lsim::env::Env, out: &mut MonOut) {
        // bounded liveness in fault-free cooperative runs
        if self.clean_run && self.horizon_ms >= 9_000 {
            out.probe("c07.liveness_judged");
            if !world.reg.has_connected || world.conns.iter().any(|c| !c.connected) {
                out.violate(
                    &format!("{M}.liveness"),
                    "",
                    0,
                    format!(
                        "fault-free cooperative run of {} ms: {} of {} uplinks connected at the end",
                        self.horizon_ms,
                        world.conns.iter().filter(|c| c.connected).count(),
                        world.conns.len()
                    ),
                );
            }
        }
    }
}
