//! C20 — telemetry subscriptions never block the data plane and stay ordered.

use std::cell::RefCell;
use std::collections::{HashMap, HashSet};
use std::rc::Rc;

use serde::{Deserialize, Serialize};
use serde_json::{Value, json};
use srtla_send::net::verif_hooks as net_hooks;
use srtla_send::subscriptions::SubscriptionHub;
use tokio::sync::mpsc;

use super::{CriticalGuard, Executor, Policy, RunEnd, SharedRc, yield_now};
use crate::common::{Check, RunOutcome, Stats, Tier, Violation};
use crate::prng::{LogHash, Rng};

const TOPICS: [&str; 2] = ["stats", "priority.window"];
const SUB: u8 = 1;
const PUB: u8 = 2;

#[derive(Clone, Debug, Serialize, Deserialize, PartialEq)]
pub enum SubOp {
    Subscribe { topic: usize },
    Unsubscribe { which: usize },
    Drain,
    Yield,
    Close,
}

#[derive(Clone, Debug, Serialize, Deserialize, PartialEq)]
pub struct PubSpec {
    pub topic: usize,
    pub n: u32,
}

#[derive(Clone, Debug, Serialize, Deserialize, PartialEq)]
pub struct TPlan {
    pub seed: u64,
    pub pct_d: Option<u32>,
    pub cap: usize,
    pub pubs: Vec<PubSpec>,
    pub subs: Vec<Vec<SubOp>>,
    /// Poll index at which every subscriber-side task is stalled for good.
    pub stall_at: Option<u64>,
    pub yield_points: bool,
    #[serde(default)]
    pub schedule: Option<Vec<u32>>,
}

#[derive(Default)]
struct SubRec {
    /// (subscription id, topic, step at which subscribe returned)
    ids: Vec<(String, usize, u64)>,
    /// (subscription id, step at which unsubscribe returned, removed)
    unsubs: Vec<(String, u64, bool)>,
    received: Vec<(String, u64)>,
    closed_at: Option<u64>,
    rx: Option<mpsc::Receiver<String>>,
}

#[derive(Default)]
struct PubRec {
    /// per event: (invoke step, return step or None)
    events: Vec<(u64, Option<u64>)>,
}

async fn sub_task(hub: SubscriptionHub, shared: SharedRc, me: usize, ops: Vec<SubOp>, cap: usize, rec: Rc<RefCell<SubRec>>) {
    let (tx, rx) = mpsc::channel::<String>(cap.max(1));
    rec.borrow_mut().rx = Some(rx);
    for op in ops {
        match op {
            SubOp::Subscribe { topic } => {
                let t = topic % TOPICS.len();
                let g = CriticalGuard::enter(&shared, me);
                let id = hub.subscribe(TOPICS[t], tx.clone()).await;
                drop(g);
                rec.borrow_mut().ids.push((id, t, shared.step.get()));
            }
            SubOp::Unsubscribe { which } => {
                let id = {
                    let r = rec.borrow();
                    if r.ids.is_empty() {
                        None
                    } else {
                        Some(r.ids[which % r.ids.len()].0.clone())
                    }
                };
                if let Some(id) = id {
                    let g = CriticalGuard::enter(&shared, me);
                    let removed = hub.unsubscribe(&id).await;
                    drop(g);
                    rec.borrow_mut().unsubs.push((id, shared.step.get(), removed));
                }
            }
            SubOp::Drain => {
                let mut r = rec.borrow_mut();
                let step = shared.step.get();
                let mut got = Vec::new();
                if let Some(rx) = r.rx.as_mut() {
                    while let Ok(line) = rx.try_recv() {
                        got.push((line, step));
                    }
                }
                r.received.extend(got);
            }
            SubOp::Yield => {}
            SubOp::Close => {
                let mut r = rec.borrow_mut();
                if r.rx.take().is_some() {
                    r.closed_at = Some(shared.step.get());
                }
            }
        }
        yield_now().await;
    }
    drop(tx);
}

async fn pub_task(hub: SubscriptionHub, shared: SharedRc, pid: usize, spec: PubSpec, rec: Rc<RefCell<PubRec>>) {
    for k in 0..spec.n {
        let invoke = shared.step.get();
        rec.borrow_mut().events.push((invoke, None));
        hub.publish(TOPICS[spec.topic % TOPICS.len()], json!({"p": pid, "s": k})).await;
        rec.borrow_mut().events[k as usize].1 = Some(shared.step.get());
        yield_now().await;
    }
}

pub fn generate(seed: u64, index: u64) -> TPlan {
    let mut r = Rng::new(seed ^ 0xC20);
    let n_pubs = r.range(1, 2) as usize;
    let pubs = (0..n_pubs)
        .map(|_| PubSpec { topic: if r.chance(0.75) { 0 } else { 1 }, n: r.range(1, 12) as u32 })
        .collect();
    let n_subs = r.range(1, 3) as usize;
    let subs = (0..n_subs)
        .map(|_| {
            let n_ops = r.range(1, 12);
            let mut ops = vec![SubOp::Subscribe { topic: if r.chance(0.8) { 0 } else { 1 } }];
            for _ in 0..n_ops {
                ops.push(match r.below(12) {
                    0 | 1 => SubOp::Subscribe { topic: r.below(2) as usize },
                    2 | 3 => SubOp::Unsubscribe { which: r.below(4) as usize },
                    4..=7 => SubOp::Drain,
                    8 => SubOp::Close,
                    _ => SubOp::Yield,
                });
            }
            ops
        })
        .collect();
    TPlan {
        seed,
        pct_d: if index % 2 == 0 { None } else { Some(r.range(1, 4) as u32) },
        cap: *r.pick(&[1usize, 1, 2, 3, 8]),
        pubs,
        subs,
        stall_at: if r.chance(0.6) { Some(r.range(0, 120)) } else { None },
        yield_points: r.chance(0.9),
        schedule: None,
    }
}

pub fn execute(plan: &TPlan, want_excerpt: bool) -> (RunOutcome, Vec<u32>) {
    crate::lsim::clear_thread_seams();
    net_hooks::set_yield_points(plan.yield_points);
    let policy = match plan.pct_d {
        Some(d) => Policy::Pct { d },
        None => Policy::Uniform,
    };
    let mut ex = Executor::new(plan.seed ^ 0x5C4ED, policy, plan.schedule.clone());
    let hub = SubscriptionHub::new();
    let mut sub_recs = Vec::new();
    let mut pub_recs = Vec::new();
    for (i, ops) in plan.subs.iter().enumerate() {
        let rec = Rc::new(RefCell::new(SubRec::default()));
        sub_recs.push(rec.clone());
        let id = ex.tasks.len();
        ex.spawn(&format!("sub{i}"), SUB, sub_task(hub.clone(), ex.shared.clone(), id, ops.clone(), plan.cap, rec));
    }
    for (p, spec) in plan.pubs.iter().enumerate() {
        let rec = Rc::new(RefCell::new(PubRec::default()));
        pub_recs.push(rec.clone());
        ex.spawn(&format!("pub{p}"), PUB, pub_task(hub.clone(), ex.shared.clone(), p, spec.clone(), rec));
    }
    ex.prepare(200);
    let mut out = RunOutcome::default();
    let mut stats = Stats::default();
    let mut violations: Vec<Violation> = Vec::new();
    let mut stalled_any = false;
    let end = loop {
        if let Some(s) = plan.stall_at
            && ex.schedule.len() as u64 >= s
        {
            let n = ex.stall_group(SUB);
            if n > 0 {
                stalled_any = true;
                stats.add("fault.subscriber_task_stalled", n as u64);
            }
        }
        if ex.schedule.len() as u64 >= ex.max_polls {
            break RunEnd::PollCap;
        }
        if !ex.step() {
            break if ex.tasks.iter().all(|t| t.done) { RunEnd::AllDone } else { RunEnd::Quiescent };
        }
    };
    let steps = ex.shared.step.get();
    // ---- progress: every publish completes using only the publishers' own polls ----
    for (p, t) in ex.tasks.iter().enumerate().filter(|(_, t)| t.group == PUB) {
        if !t.done {
            match end {
                RunEnd::PollCap => out.inconclusive = true,
                _ => violations.push(Violation::new(
                    "C20.publish_blocked",
                    if stalled_any { "stalled_subscriber" } else { "no_stall" },
                    steps,
                    format!("publisher task {} ({}) is pending and nothing is runnable: publishing waits on a subscriber", p, t.name),
                )),
            }
        }
    }
    if stalled_any {
        stats.inc("c20.runs_with_stalled_subscribers");
    }
    // final drain of live receivers
    for rec in &sub_recs {
        let mut r = rec.borrow_mut();
        let mut got = Vec::new();
        if let Some(rx) = r.rx.as_mut() {
            while let Ok(line) = rx.try_recv() {
                got.push((line, steps + 1));
            }
        }
        r.received.extend(got);
    }
    // hub size at the end (a fresh mini-executor; the lock must be free if publishers are done)
    let hub_len: Option<usize> = {
        let cell = Rc::new(RefCell::new(None));
        let c2 = cell.clone();
        let h2 = hub.clone();
        let mut ex2 = Executor::new(1, Policy::Uniform, None);
        ex2.spawn("len", 0, async move {
            *c2.borrow_mut() = Some(h2.len().await);
        });
        net_hooks::set_yield_points(false);
        let _ = ex2.run();
        let v = *cell.borrow();
        v
    };
    // ---- per-subscriber oracles ----
    let mut all_ids: HashSet<String> = HashSet::new();
    let mut dup_id = false;
    let mut orders: HashMap<usize, Vec<Vec<(u64, u64)>>> = HashMap::new();
    let mut log = LogHash::default();
    let mut delivered = 0u64;
    for (si, rec) in sub_recs.iter().enumerate() {
        let r = rec.borrow();
        for (id, _, _) in &r.ids {
            if !all_ids.insert(id.clone()) {
                dup_id = true;
            }
        }
        let mut last_seq: HashMap<(String, u64), i64> = HashMap::new();
        let mut per_id_order: HashMap<String, Vec<(u64, u64)>> = HashMap::new();
        for (line, _) in &r.received {
            delivered += 1;
            log.bytes(line.as_bytes());
            let v: Value = match serde_json::from_str(line) {
                Ok(v) => v,
                Err(e) => {
                    violations.push(Violation::new("C20.line", "not_json", steps, format!("subscriber {si} received an unparsable line: {e}")));
                    continue;
                }
            };
            let sid = v["params"]["subscription_id"].as_str().unwrap_or("").to_string();
            let method = v["method"].as_str().unwrap_or("");
            let p = v["params"]["data"]["p"].as_u64().unwrap_or(u64::MAX);
            let s = v["params"]["data"]["s"].as_u64().unwrap_or(u64::MAX);
            let Some((_, topic, _)) = r.ids.iter().find(|(i, _, _)| *i == sid) else {
                violations.push(Violation::new("C20.foreign_id", "", steps, format!("subscriber {si} received an event tagged {sid:?}, an id it was never given")));
                continue;
            };
            let pub_topic = plan.pubs.get(p as usize).map(|x| x.topic % TOPICS.len());
            if method != format!("{}.update", TOPICS[*topic]) || pub_topic != Some(*topic) || v["jsonrpc"] != "2.0" {
                violations.push(Violation::new(
                    "C20.topic",
                    "",
                    steps,
                    format!("subscription {sid} of topic {} received method {method:?} carrying an event of publisher {p} (topic {:?})", TOPICS[*topic], pub_topic.map(|t| TOPICS[t])),
                ));
            }
            let key = (sid.clone(), p);
            let prev = last_seq.get(&key).copied().unwrap_or(-1);
            if (s as i64) <= prev {
                violations.push(Violation::new(
                    "C20.order",
                    if (s as i64) == prev { "duplicate" } else { "reordered" },
                    steps,
                    format!("subscription {sid}: event {s} of publisher {p} after event {prev}"),
                ));
            }
            last_seq.insert(key, s as i64);
            per_id_order.entry(sid.clone()).or_default().push((p, s));
            // nothing published after the unsubscribe returned
            if let Some((_, u, _)) = r.unsubs.iter().find(|(i, _, _)| *i == sid)
                && let Some(ev) = pub_recs.get(p as usize).and_then(|pr| pr.borrow().events.get(s as usize).copied())
                && ev.0 > *u
            {
                violations.push(Violation::new(
                    "C20.after_unsubscribe",
                    "",
                    steps,
                    format!("subscription {sid}: unsubscribe returned at step {u}, yet event {s} of publisher {p} (publish invoked at step {}) was delivered", ev.0),
                ));
            }
        }
        for (sid, ord) in per_id_order {
            if let Some((_, topic, _)) = r.ids.iter().find(|(i, _, _)| *i == sid) {
                orders.entry(*topic).or_default().push(ord);
            }
        }
        if !r.unsubs.is_empty() {
            stats.inc("c20.unsubscribes");
        }
        if r.closed_at.is_some() {
            stats.inc("fault.subscriber_closed");
        }
    }
    if dup_id {
        violations.push(Violation::new("C20.id_unique", "", steps, "two subscriptions were given the same id".into()));
    }
    // any two subscribers of a topic agree on the relative order of common events
    for lists in orders.values() {
        for a in 0..lists.len() {
            for b in a + 1..lists.len() {
                let pos_b: HashMap<(u64, u64), usize> = lists[b].iter().enumerate().map(|(i, e)| (*e, i)).collect();
                let common: Vec<usize> = lists[a].iter().filter_map(|e| pos_b.get(e).copied()).collect();
                if common.windows(2).any(|w| w[0] > w[1]) {
                    violations.push(Violation::new("C20.order", "subscribers_disagree", steps, "two subscribers of one topic saw common events in different orders".into()));
                }
            }
        }
    }
    // ---- pruning ----
    if let Some(len) = hub_len {
        let mut alive_max = 0usize;
        let mut alive_min = 0usize;
        for rec in &sub_recs {
            let r = rec.borrow();
            for (id, topic, sub_step) in &r.ids {
                if r.unsubs.iter().any(|(i, _, removed)| i == id && *removed) {
                    continue;
                }
                let unsub_attempted = r.unsubs.iter().any(|(i, _, _)| i == id);
                match r.closed_at {
                    Some(c) => {
                        let c = c.max(*sub_step);
                        let later_publish_completed = plan.pubs.iter().enumerate().any(|(p, spec)| {
                            spec.topic % TOPICS.len() == *topic
                                && pub_recs[p].borrow().events.iter().any(|(inv, ret)| *inv > c && ret.is_some())
                        });
                        if later_publish_completed {
                            stats.inc("c20.must_be_pruned");
                        } else {
                            alive_max += 1;
                        }
                    }
                    None => {
                        alive_max += 1;
                        if !unsub_attempted {
                            alive_min += 1;
                        }
                    }
                }
            }
        }
        if len > alive_max || len < alive_min {
            violations.push(Violation::new(
                "C20.pruning",
                if len > alive_max { "closed_subscriber_kept" } else { "live_subscriber_lost" },
                steps,
                format!("hub counts {len} subscriptions at the end; between {alive_min} and {alive_max} can be alive"),
            ));
        }
    } else if matches!(end, RunEnd::AllDone) {
        violations.push(Violation::new("C20.publish_blocked", "lock_held", steps, "the hub lock is still held after every task finished".into()));
    }
    for (i, c) in ex.schedule.iter().enumerate() {
        log.u64((i as u64) << 8 | *c as u64);
    }
    stats.add("c20.polls", ex.schedule.len() as u64);
    stats.add("c20.events_delivered", delivered);
    stats.add("c20.publishes", pub_recs.iter().map(|p| p.borrow().events.len() as u64).sum());
    if plan.cap == 1 {
        stats.inc("c20.capacity_one_runs");
    }
    out.violations = violations;
    out.log_hash = log.0;
    out.nontrivial = delivered > 0 || stalled_any;
    out.stats = stats;
    out.states = vec![log.0];
    out.sim_time_ms = 0;
    if want_excerpt {
        out.excerpt.push(format!("schedule ({} polls): {:?}", ex.schedule.len(), ex.schedule));
        for (si, rec) in sub_recs.iter().enumerate() {
            let r = rec.borrow();
            out.excerpt.push(format!("sub{si}: ids {:?} unsubs {:?} closed_at {:?} received {}", r.ids, r.unsubs, r.closed_at, r.received.len()));
        }
        for (p, rec) in pub_recs.iter().enumerate() {
            out.excerpt.push(format!("pub{p}: {:?}", rec.borrow().events));
        }
    }
    crate::lsim::clear_thread_seams();
    (out, ex.schedule)
}

pub struct C20Check;

impl Check for C20Check {
    fn id(&self) -> &'static str {
        "C20"
    }
    fn engine(&self) -> &'static str {
        "T"
    }
    fn level(&self) -> &'static str {
        "exploration"
    }
    fn runs(&self, tier: Tier) -> u64 {
        match tier {
            Tier::Quick => 60_000,
            Tier::Thorough => 6_000_000,
        }
    }
    fn generate(&self, run_seed: u64, index: u64, _tier: Tier) -> Value {
        serde_json::to_value(generate(run_seed, index)).unwrap()
    }
    fn execute(&self, plan: &Value, want_excerpt: bool) -> RunOutcome {
        let plan: TPlan = serde_json::from_value(plan.clone()).unwrap_or_else(|e| panic!("bad T plan: {e}"));
        execute(&plan, want_excerpt).0
    }
    fn shrink(&self, plan: &Value) -> Vec<Value> {
        let Ok(p) = serde_json::from_value::<TPlan>(plan.clone()) else { return Vec::new() };
        let mut out = Vec::new();
        // pin the schedule first so that shrinking operations keeps the interleaving
        if p.schedule.is_none() {
            let (_, sched) = execute(&p, false);
            let mut q = p.clone();
            q.schedule = Some(sched);
            out.push(serde_json::to_value(q).unwrap());
        }
        for i in 0..p.subs.len() {
            if p.subs.len() > 1 {
                let mut q = p.clone();
                q.subs.remove(i);
                q.schedule = None;
                out.push(serde_json::to_value(q).unwrap());
            }
            for j in 0..p.subs[i].len() {
                let mut q = p.clone();
                q.subs[i].remove(j);
                q.schedule = None;
                out.push(serde_json::to_value(q).unwrap());
            }
        }
        for i in 0..p.pubs.len() {
            if p.pubs[i].n > 1 {
                let mut q = p.clone();
                q.pubs[i].n -= 1;
                q.schedule = None;
                out.push(serde_json::to_value(q).unwrap());
            }
        }
        if let Some(s) = &p.schedule {
            // drop pre-emptions: shorter prescribed prefix (the rest falls back to lowest ready task)
            let mut q = p.clone();
            q.schedule = Some(s[..s.len() / 2].to_vec());
            out.push(serde_json::to_value(q).unwrap());
        }
        out
    }
    fn rule(&self) -> String {
        "one run = one seeded scenario (1..2 publishers of 1..12 events on `stats` / `priority.window`, 1..3 connection tasks each with its own bounded channel of capacity 1..8 and up to 13 operations from {subscribe, unsubscribe, drain, yield, close}) executed on the in-tree executor under a uniform-random or PCT schedule, with yield points inside publish and right after each lock acquisition; in 60% of runs every subscriber-side task outside a hub critical section is stalled for good at a seeded poll. Oracles: every publish completes (publisher pending with nothing runnable = violation); per subscription: valid JSON, method of its topic, its own id, ids globally unique, per-publisher sequence strictly increasing, subscribers agree on the order of common events; nothing whose publish was invoked after an unsubscribe returned; closed subscribers pruned by the next completed publish of their topic. Non-trivial = at least one event delivered or a stall injected; distinct = distinct (schedule, deliveries) hashes among non-trivial runs".into()
    }
    fn assumptions(&self) -> Vec<String> {
        vec![
            "pre-emption granularity is the await that returns Pending plus the H8 yield points; true thread-level parallelism inside tokio's Mutex/mpsc is trusted from tokio".into(),
            "a task inside subscribe/unsubscribe (it may hold the hub lock) is not stalled until it leaves the call: a slow control connection does not hold the lock in production either".into(),
            "no delivery guarantee is claimed (drop-on-full is the design)".into(),
        ]
    }
    fn real_components(&self) -> Vec<String> {
        vec!["SubscriptionHub::{subscribe, unsubscribe, publish, len} on real tokio::sync::{Mutex, mpsc}".into()]
    }
    fn stub_components(&self) -> Vec<String> {
        vec![
            "tokio runtime: replaced by the in-tree seeded single-thread executor".into(),
            "control_socket::handle (Unix stream framing): its per-connection channel, owned-id list and clean-up on disconnect are mirrored by the connection tasks".into(),
        ]
    }
    fn expected_probes(&self) -> Vec<&'static str> {
        vec!["c20.runs_with_stalled_subscribers", "c20.events_delivered", "c20.unsubscribes", "fault.subscriber_closed", "c20.must_be_pruned", "c20.capacity_one_runs"]
    }
}
