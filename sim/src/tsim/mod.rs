//! Engine T — task-schedule simulation.
//!
//! An in-tree single-threaded executor: tasks are boxed futures, wakers set a
//! ready bit, and the next task to poll is chosen by the seeded PRNG (uniform or
//! PCT-style priorities with change points). The choice sequence is the
//! recorded schedule; replaying it re-executes the run exactly. The executor can
//! permanently stall tasks (never poll them again) and detects "unfinished tasks
//! but nothing runnable".

pub mod c18;
pub mod c20;

use std::cell::{Cell, RefCell};
use std::future::Future;
use std::pin::Pin;
use std::rc::Rc;
use std::sync::Arc;
use std::sync::atomic::{AtomicBool, Ordering};
use std::task::{Context, Poll, Wake, Waker};

use crate::prng::Rng;

struct ReadyFlag(AtomicBool);

impl Wake for ReadyFlag {
    fn wake(self: Arc<Self>) {
        self.0.store(true, Ordering::SeqCst);
    }
    fn wake_by_ref(self: &Arc<Self>) {
        self.0.store(true, Ordering::SeqCst);
    }
}

pub struct Task {
    pub name: String,
    fut: Option<Pin<Box<dyn Future<Output = ()>>>>,
    ready: Arc<ReadyFlag>,
    pub done: bool,
    pub stalled: bool,
    /// Tasks of this kind are stalled by `stall_group`.
    pub group: u8,
    pub polls: u64,
}

/// Shared between the executor and the tasks (single thread).
#[derive(Default)]
pub struct Shared {
    /// Global step counter: incremented at every poll.
    pub step: Cell<u64>,
    /// Per-task "inside a hub critical section" marker.
    pub in_critical: RefCell<Vec<bool>>,
    /// Task currently being polled.
    pub current: Cell<usize>,
}

pub type SharedRc = Rc<Shared>;

#[derive(Clone, Copy, Debug, PartialEq, Eq)]
pub enum Policy {
    Uniform,
    /// PCT-style: fixed random priorities, `d` priority change points.
    Pct { d: u32 },
}

pub struct Executor {
    pub tasks: Vec<Task>,
    pub shared: SharedRc,
    rng: Rng,
    policy: Policy,
    priorities: Vec<u64>,
    change_points: Vec<u64>,
    /// Recorded (or, when replaying, prescribed) choices.
    pub schedule: Vec<u32>,
    replay: Option<Vec<u32>>,
    pub max_polls: u64,
}

pub enum RunEnd {
    AllDone,
    /// Unfinished tasks remain but none is runnable.
    Quiescent,
    PollCap,
}

impl Executor {
    pub fn new(seed: u64, policy: Policy, replay: Option<Vec<u32>>) -> Executor {
        Executor {
            tasks: Vec::new(),
            shared: Rc::new(Shared::default()),
            rng: Rng::new(seed),
            policy,
            priorities: Vec::new(),
            change_points: Vec::new(),
            schedule: Vec::new(),
            replay,
            max_polls: 20_000,
        }
    }

    pub fn spawn(&mut self, name: &str, group: u8, fut: impl Future<Output = ()> + 'static) -> usize {
        let id = self.tasks.len();
        self.tasks.push(Task {
            name: name.to_string(),
            fut: Some(Box::pin(fut)),
            ready: Arc::new(ReadyFlag(AtomicBool::new(true))),
            done: false,
            stalled: false,
            group,
            polls: 0,
        });
        self.shared.in_critical.borrow_mut().push(false);
        self.priorities.push(self.rng.next_u64());
        id
    }

    pub fn prepare(&mut self, expected_polls: u64) {
        if let Policy::Pct { d } = self.policy {
            for _ in 0..d {
                let p = self.rng.below(expected_polls.max(1));
                self.change_points.push(p);
            }
        }
    }

    /// Permanently stall every task of `group` that is not inside a critical section.
    /// Tasks inside one are stalled as soon as they leave it (checked before each poll).
    pub fn stall_group(&mut self, group: u8) -> usize {
        let crit = self.shared.in_critical.borrow().clone();
        let mut n = 0;
        for (i, t) in self.tasks.iter_mut().enumerate() {
            if t.group == group && !t.done && !t.stalled && !crit[i] {
                t.stalled = true;
                n += 1;
            }
        }
        n
    }

    fn runnable(&self) -> Vec<usize> {
        self.tasks
            .iter()
            .enumerate()
            .filter(|(_, t)| !t.done && !t.stalled && t.ready.0.load(Ordering::SeqCst))
            .map(|(i, _)| i)
            .collect()
    }

    /// Poll one task chosen by the policy. Returns false if nothing is runnable.
    pub fn step(&mut self) -> bool {
        let ready = self.runnable();
        if ready.is_empty() {
            return false;
        }
        let k = self.schedule.len();
        let pick = if let Some(r) = &self.replay {
            match r.get(k) {
                Some(c) if ready.contains(&(*c as usize)) => *c as usize,
                _ => ready[0],
            }
        } else {
            match self.policy {
                Policy::Uniform => ready[self.rng.below(ready.len() as u64) as usize],
                Policy::Pct { .. } => {
                    if self.change_points.contains(&(k as u64)) {
                        // demote the currently highest-priority runnable task
                        if let Some(top) = ready.iter().copied().max_by_key(|i| self.priorities[*i]) {
                            self.priorities[top] = self.rng.next_u64() >> 32;
                        }
                    }
                    ready.iter().copied().max_by_key(|i| self.priorities[*i]).unwrap()
                }
            }
        };
        self.schedule.push(pick as u32);
        let shared = self.shared.clone();
        shared.step.set(shared.step.get() + 1);
        shared.current.set(pick);
        let t = &mut self.tasks[pick];
        t.ready.0.store(false, Ordering::SeqCst);
        t.polls += 1;
        let waker = Waker::from(t.ready.clone());
        let mut cx = Context::from_waker(&waker);
        let mut fut = t.fut.take().expect("task future present");
        match fut.as_mut().poll(&mut cx) {
            Poll::Ready(()) => {
                t.done = true;
            }
            Poll::Pending => {
                t.fut = Some(fut);
            }
        }
        true
    }

    pub fn run(&mut self) -> RunEnd {
        loop {
            if self.schedule.len() as u64 >= self.max_polls {
                return RunEnd::PollCap;
            }
            if !self.step() {
                return if self.tasks.iter().all(|t| t.done) { RunEnd::AllDone } else { RunEnd::Quiescent };
            }
        }
    }
}

/// A cooperative scheduling point for simulated tasks.
pub struct YieldNow(pub bool);

impl Future for YieldNow {
    type Output = ();
    fn poll(mut self: Pin<&mut Self>, cx: &mut Context<'_>) -> Poll<()> {
        if self.0 {
            return Poll::Ready(());
        }
        self.0 = true;
        cx.waker().wake_by_ref();
        Poll::Pending
    }
}

pub fn yield_now() -> YieldNow {
    YieldNow(false)
}

/// Marks the current task as inside a hub critical section for its lifetime.
pub struct CriticalGuard {
    shared: SharedRc,
    task: usize,
}

impl CriticalGuard {
    pub fn enter(shared: &SharedRc, task: usize) -> CriticalGuard {
        shared.in_critical.borrow_mut()[task] = true;
        CriticalGuard { shared: shared.clone(), task }
    }
}

impl Drop for CriticalGuard {
    fn drop(&mut self) {
        self.shared.in_critical.borrow_mut()[self.task] = false;
    }
}
