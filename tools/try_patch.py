#!/usr/bin/env python3
"""try_patch.py <property> <mutant_dir> [other properties...] : apply patch to /repo, run quick checks, revert, write CHECKS.json"""
import json, os, subprocess, sys
prop, mdir = sys.argv[1], sys.argv[2]
props = [prop] + sys.argv[3:]
subprocess.run("git -C /repo checkout -- .", shell=True)
r = subprocess.run(f"git -C /repo apply {mdir}/patch.diff", shell=True, capture_output=True, text=True)
if r.returncode != 0:
    print("APPLY-FAILED", r.stderr); sys.exit(2)
res = {}
try:
    for p in props:
        env = dict(os.environ, VERIF_EVIDENCE_DIR="/tmp/ev", VERIF_REPLAY_DIR="/tmp/ev")
        o = subprocess.run(["/verif/run.sh", p, "quick"], capture_output=True, text=True, env=env)
        v = [l for l in o.stdout.splitlines() if l.startswith("violation:")]
        res[p] = {"exit": o.returncode, "violation": v[0][:500] if v else None,
                  "note": f"./run.sh {p} quick on /repo with the patch applied (git -C /repo apply; undone with git -C /repo checkout -- .)"}
        print(p, o.returncode, (v[0][:230] if v else o.stdout.strip().splitlines()[-1][:200]))
finally:
    subprocess.run("git -C /repo checkout -- .", shell=True)
json.dump(res, open(f"{mdir}/CHECKS.json", "w"), indent=1)
