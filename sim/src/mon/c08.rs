//! C08 — failure detection, endless retry, clean rejoin.

use std::collections::HashMap;

use srtla_core::connection::LinkPhase;
use srtla_send::net::verif_hooks::UplinkCall;

use super::{T_REG_ERR, T_REG3, Truth, ptype};
use crate::lsim::plan::{Action, LPlan};
use crate::lsim::{MonOut, Monitor, StepCtx, StepKind, World, abstract_state, find_view};

const M: &str = "C08";

#[derive(Default)]
struct LinkHist {
    last_attempt: Option<u64>,
    /// Since when the liveness precondition has held continuously while the link is down.
    ok_since: Option<u64>,
    ever_established: bool,
    /// The sender tore the link down (socket replaced / recovery) since it was last connected.
    torn_down_since_connected: bool,
}

#[derive(Default)]
pub struct C08 {
    truth: Truth,
    hist: HashMap<u64, LinkHist>,
    /// Plan time (absolute ms) after which no fault action happens any more.
    quiet_after: u64,
    /// Paths that stay faulty to the end of the plan, or have random loss.
    unreliable_paths: Vec<usize>,
    coop_at_end: bool,
    /// Some path still loses its REG2 replies (and nothing else) when the plan ends.
    reg2_loss_left_on: bool,
    last_tick: u64,
    path_of_ip: HashMap<std::net::IpAddr, usize>,
}

impl C08 {
    pub fn new() -> Self {
        Self::default()
    }
}

impl Monitor for C08 {
    fn on_start(&mut self, _world: &World, plan: &LPlan) {
        let mut quiet = 0u64;
        let mut bh: HashMap<usize, bool> = HashMap::new();
        let mut ll: HashMap<usize, bool> = HashMap::new();
        let mut bf: HashMap<usize, bool> = HashMap::new();
        let mut dr: HashMap<usize, bool> = HashMap::new();
        let mut mode = plan.recv.mode.clone();
        for a in &plan.actions {
            let end = match &a.kind {
                Action::Blackhole { link, on, up, down } => {
                    if *up {
                        bh.insert(*link * 2, *on);
                    }
                    if *down {
                        bh.insert(*link * 2 + 1, *on);
                    }
                    a.t
                }
                Action::DropReg2 { link, on } => {
                    // lost handshake replies: a fault of the down direction
                    dr.insert(*link, *on);
                    a.t
                }
                Action::LinkLoss { link, on } => {
                    bh.insert(*link * 2, *on);
                    bh.insert(*link * 2 + 1, *on);
                    ll.insert(*link, *on);
                    a.t
                }
                Action::BindFail { link, .. } => {
                    // Bind / socket-creation failures are not among the fault kinds the
                    // liveness clause lists: they legitimately grow the back-off to 120 s,
                    // so the next attempt after a repair may be up to 120 s away. Links
                    // that ever see one are judged for spacing only.
                    bf.insert(*link, true);
                    a.t
                }
                Action::SendFault { .. } => a.t + 2_000,
                Action::ReceiverRestart => a.t,
                Action::ReceiverMode { mode: m } => {
                    mode = m.clone();
                    a.t
                }
                Action::Inject { delay, .. } => a.t + delay,
                Action::UplinkRecvError { .. } => a.t,
                Action::Reload { .. } => a.t + 1_000,
                Action::Control { .. } => a.t,
                Action::Stall { ms } => a.t + ms,
                _ => 0,
            };
            quiet = quiet.max(end);
        }
        self.quiet_after = plan.time_base_ms + quiet;
        self.coop_at_end = mode == "coop";
        self.reg2_loss_left_on = dr.values().any(|on| *on);
        for i in 0..11 {
            let lossy = plan.links.get(i).is_some_and(|l| l.loss_up > 0.0 || l.loss_down > 0.0 || l.dup > 0.0);
            if lossy
                || bh.get(&(i * 2)).copied().unwrap_or(false)
                || bh.get(&(i * 2 + 1)).copied().unwrap_or(false)
                || bf.get(&i).copied().unwrap_or(false)
                || dr.get(&i).copied().unwrap_or(false)
            {
                self.unreliable_paths.push(i);
            }
        }
        for i in 0..8 {
            self.path_of_ip.insert(crate::lsim::path_ip(i), i);
        }
    }

    fn on_step(&mut self, ctx: &StepCtx<'_>, out: &mut MonOut) {
        // ---- survivors keep carrying the stream ----
        if let StepKind::Client(Some(bytes)) = ctx.kind
            && !bytes.is_empty()
            && ctx.has_connected_pre
        {
            let usable = ctx
                .pre
                .iter()
                .filter(|v| self.truth.usable_at_decision(v, ctx.now, ctx.cfg.conn_timeout_ms))
                .count();
            let placed = ctx.pre.iter().any(|p| {
                find_view(ctx.mid, p.conn_id)
                    .is_some_and(|m| m.queued != p.queued || ctx.wire[..ctx.wire_mid].iter().any(|w| Some(w.fd) == p.fd && w.call == UplinkCall::SendBatch))
            });
            if usable > 0 {
                out.probe("c08.stream_with_survivor");
                if ctx.pre.iter().any(|v| !v.connected) {
                    out.probe("c08.stream_while_a_link_is_down");
                }
                if !placed {
                    out.violate(&format!("{M}.survivors"), "", ctx.idx, format!("{usable} usable uplink(s) but the client datagram was dropped"));
                }
            }
        }

        // ---- cause of every tear-down of a connected link ----
        let silent_before: HashMap<u64, Option<u64>> = ctx.pre.iter().map(|v| (v.conn_id, self.truth.silent_for(v.conn_id, ctx.now))).collect();
        let applied_before: HashMap<u64, u64> = ctx
            .pre
            .iter()
            .map(|v| (v.conn_id, self.truth.links.get(&v.conn_id).map(|l| l.applied_timeout).unwrap_or(5000)))
            .collect();
        for pre in ctx.pre {
            let Some(post) = find_view(ctx.post, pre.conn_id) else {
                continue;
            };
            let h = self.hist.entry(pre.conn_id).or_default();
            if pre.established_ms != 0 {
                h.ever_established = true;
            }
            let reg_err = ctx.uplink.iter().any(|(c, b)| *c == pre.conn_id && ptype(b) == Some(T_REG_ERR));
            let torn = pre.fd != post.fd || (pre.connected && !post.connected && !reg_err) || pre.last_attempt_ms != post.last_attempt_ms;
            if torn {
                h.torn_down_since_connected = true;
            }
            if torn && pre.connected {
                out.probe("c08.teardown_of_connected_link");
                let timeout_lo = applied_before[&pre.conn_id].min(ctx.cfg.conn_timeout_ms);
                let timed_out = matches!(ctx.kind, StepKind::Housekeeping)
                    && silent_before[&pre.conn_id].is_none_or(|s| s >= timeout_lo);
                let send_failed = ctx
                    .wire
                    .iter()
                    .any(|w| Some(w.fd) == pre.fd && w.call == UplinkCall::SendBatch && w.injected_fault && !matches!(w.result, Ok(n) if n > 0));
                if timed_out {
                    out.probe("c08.cause_silence");
                } else if send_failed {
                    out.probe("c08.cause_send_failure");
                } else {
                    let penalised = pre.private.stall_gated || pre.private.silence_pulled || pre.weak || pre.loss_degraded || pre.fast_recovery;
                    out.violate(
                        &format!("{M}.teardown_cause"),
                        if penalised { "penalised_link" } else { "healthy_link" },
                        ctx.idx,
                        format!(
                            "connected link {:x} was torn down in a {} step: silent for {:?} ms (timeout {} / {}), no send failure; gated={} pulled={} weak={} loss_degraded={}",
                            pre.conn_id,
                            ctx.kind.name(),
                            silent_before[&pre.conn_id],
                            applied_before[&pre.conn_id],
                            ctx.cfg.conn_timeout_ms,
                            pre.private.stall_gated,
                            pre.private.silence_pulled,
                            pre.weak,
                            pre.loss_degraded
                        ),
                    );
                }
            }
            // ---- retry spacing ----
            // an attempt is what the wire side sees - the socket was re-opened - or, when the
            // re-open failed, the implementation's own stamp moving to now
            if pre.fd != post.fd || (pre.last_attempt_ms != post.last_attempt_ms && post.last_attempt_ms == ctx.now) {
                out.probe("c08.attempt");
                if let Some(prev) = h.last_attempt {
                    let gap = ctx.now - prev;
                    let min = if h.ever_established { 5000 } else { 1000 };
                    if gap < min {
                        out.violate(
                            &format!("{M}.spacing"),
                            "too_soon",
                            ctx.idx,
                            format!("link {:x}: attempts {gap} ms apart (minimum {min})", pre.conn_id),
                        );
                    }
                    if gap > 40_000 {
                        out.probe("c08.backoff_grew");
                    }
                }
                h.last_attempt = Some(ctx.now);
            }
            // ---- clean rejoin ----
            // (a link that was only rejected by the peer - REG_ERR - and is accepted again before the
            // sender ever tore it down has not been reset; the clause is about torn-down uplinks)
            let was_torn = h.torn_down_since_connected;
            if !pre.connected && post.connected {
                h.torn_down_since_connected = false;
            }
            if !pre.connected && post.connected && h.ever_established && was_torn && ctx.uplink.len() == 1 && ptype(&ctx.uplink[0].1) == Some(T_REG3) {
                out.probe("c08.rejoin");
                let warming = matches!(post.phase, LinkPhase::Warming { rtt_probes: 0, .. });
                if post.window != 20_000 || post.in_flight != 0 || !warming {
                    out.violate(
                        &format!("{M}.rejoin"),
                        "",
                        ctx.idx,
                        format!("link {:x} rejoined with window {} in-flight {} phase {:?}", pre.conn_id, post.window, post.in_flight, post.phase),
                    );
                }
            }
        }
        self.truth.update(ctx);

        // ---- endless retry and bounded liveness, judged at ticks ----
        if matches!(ctx.kind, StepKind::Housekeeping) && ctx.idx > 1 {
            let tick_gap = ctx.now.saturating_sub(self.last_tick).max(1000);
            let any_connected = ctx.post.iter().any(|v| v.connected);
            let group_known = ctx.env.receiver_has_group_id(&ctx.world.reg.srtla_id);
            for v in ctx.post {
                let h = self.hist.entry(v.conn_id).or_default();
                if v.connected {
                    h.ok_since = None;
                    continue;
                }
                // endless retry: a link that stays down and silent keeps being re-attempted
                let silent = self.truth.silent_for(v.conn_id, ctx.now).is_none_or(|s| s >= 60_000);
                if silent && let Some(prev) = h.last_attempt {
                    let gap = ctx.now - prev;
                    if gap > 120_000 + tick_gap {
                        out.violate(&format!("{M}.spacing"), "stopped", ctx.idx, format!("link {:x}: no attempt for {gap} ms while down", v.conn_id));
                        h.last_attempt = Some(ctx.now);
                    }
                }
                // bounded liveness
                let path = self.path_of_ip.get(&v.ip).copied();
                let reliable = path.is_some_and(|p| !self.unreliable_paths.contains(&p));
                let pre_ok = ctx.now >= self.quiet_after && self.coop_at_end && reliable && (group_known || !any_connected);
                if !pre_ok {
                    h.ok_since = None;
                    continue;
                }
                let since = *h.ok_since.get_or_insert(ctx.now);
                out.probe("c08.liveness_clock_running");
                if ctx.now - since > 30_000 + tick_gap {
                    out.violate(
                        &format!("{M}.liveness"),
                        // an uplink that hears REG_NGP but never its REG2 keeps taking the one
                        // outstanding-REG1 slot: such histories are labelled apart (known finding)
                        if self.reg2_loss_left_on {
                            "handshake_slot_held_by_uplinks_losing_reg2"
                        } else if v.last_received.is_some() {
                            "registering_link_kept_alive"
                        } else {
                            "silent_link"
                        },
                        ctx.idx,
                        format!(
                            "link {:x} has been disconnected for {} ms although its path delivers and the receiver would accept it (last heard {:?} ms ago, last attempt {:?} ms ago, established before: {})",
                            v.conn_id,
                            ctx.now - since,
                            v.last_received.map(|t| ctx.now - t),
                            h.last_attempt.map(|t| ctx.now - t),
                            h.ever_established
                        ),
                    );
                    h.ok_since = Some(ctx.now);
                }
            }
            self.last_tick = ctx.now;
            out.states.push(abstract_state(ctx.post, ctx.now, &ctx.world.reg));
        }
        let _ = T_REG3;
    }
}
