//! C06 — congestion windows stay in range and move in the right direction.

use super::{KCtx, KEv, KMonitor, KWorld};
use crate::lsim::MonOut;

const M: &str = "C06";

#[derive(Default)]
pub struct C06;

impl KMonitor for C06 {
    fn on_start(&mut self, w: &KWorld) {
        for c in &w.conns {
            assert_eq!(c.window, 20_000, "a new link starts at the default window");
        }
    }

    fn on_event(&mut self, ctx: &KCtx<'_>, out: &mut MonOut) {
        for (i, post) in ctx.world.conns.iter().enumerate() {
            let pre = &ctx.pre[i];
            let (w0, w1) = (pre.window, post.window);
            if !(1000..=60_000).contains(&w1) {
                out.violate(&format!("{M}.range"), "", ctx.idx, format!("link {i}: window {w1} after {:?}", ctx.ev));
            }
            let acted = |l: &usize| *l % ctx.world.conns.len() == i;
            let (dir_ok, kind): (bool, &str) = match ctx.ev {
                KEv::Nak { link, .. } if acted(link) => {
                    out.probe("c06.nak");
                    if w0 == 1000 {
                        out.probe("c06.nak_at_floor");
                    }
                    (w1 <= w0, "nak")
                }
                KEv::Nak { .. } => (w1 == w0, "nak_other_link"),
                KEv::SrtlaAck { .. } => {
                    out.probe("c06.ack");
                    if w0 >= 59_971 {
                        out.probe("c06.ack_near_cap");
                    }
                    (w1 >= w0, "ack")
                }
                KEv::AckRule { link, .. } if acted(link) => {
                    out.probe("c06.ack_rule_extreme_in_flight");
                    (w1 >= w0 && w1 - w0 <= 29, "ack_rule")
                }
                KEv::Recovery { link, .. } if acted(link) => {
                    out.probe("c06.recovery_tick");
                    if w1 > w0 {
                        out.probe("c06.recovery_increased");
                    }
                    (w1 >= w0, "recovery")
                }
                KEv::Tick { .. } => {
                    out.probe("c06.housekeeping_tick");
                    if ctx.cfg_pre.classic {
                        (w1 == w0, "classic_tick")
                    } else {
                        (w1 >= w0, "tick")
                    }
                }
                KEv::MarkForRecovery { link } | KEv::Reconnect { link } if acted(link) => {
                    out.probe("c06.teardown");
                    (w1 == 20_000, "teardown")
                }
                KEv::SetWindow { link, .. } if acted(link) => (true, "set"),
                _ => (w1 == w0, "unrelated_event"),
            };
            if !dir_ok {
                out.violate(
                    &format!("{M}.direction"),
                    kind,
                    ctx.idx,
                    format!("link {i}: window {w0} -> {w1} across {:?}", ctx.ev),
                );
            }
            // fast-recovery flag
            let (f0, f1) = (pre.congestion.fast_recovery_mode, post.congestion.fast_recovery_mode);
            let reset = matches!(ctx.ev, KEv::Reconnect { link } | KEv::Reg3 { link } if acted(link));
            if !f0 && f1 {
                out.probe("c06.fast_recovery_entered");
                if w1 > 2000 {
                    out.violate(&format!("{M}.fast_recovery"), "entered_high", ctx.idx, format!("link {i}: fast recovery entered at window {w1}"));
                }
            }
            if f0 && !f1 {
                out.probe("c06.fast_recovery_left");
                if !(w1 >= 12_000 || reset) {
                    out.violate(&format!("{M}.fast_recovery"), "left_low", ctx.idx, format!("link {i}: fast recovery left at window {w1} across {:?}", ctx.ev));
                }
            }
        }
    }
}
