//! C02 on engine K: direct register / ACK / NAK / reset histories with sequence
//! numbers anywhere in a non-wrapping 31-bit span, against a per-link set model.

use std::collections::BTreeSet;

use super::{KCtx, KEv, KMonitor, KWorld};
use crate::lsim::MonOut;

#[derive(Default)]
pub struct C02K {
    sets: Vec<BTreeSet<i32>>,
}

impl KMonitor for C02K {
    fn on_start(&mut self, w: &KWorld) {
        self.sets = vec![BTreeSet::new(); w.conns.len()];
    }
    fn on_event(&mut self, ctx: &KCtx<'_>, out: &mut MonOut) {
        let n = self.sets.len();
        match ctx.ev {
            KEv::Register { link, seq } => {
                self.sets[*link % n].insert(*seq);
                out.probe("c02k.register");
            }
            KEv::CumAckSeq { seq } => {
                for s in self.sets.iter_mut() {
                    s.retain(|x| *x > *seq);
                }
                out.probe("c02k.cumulative_ack");
            }
            KEv::SrtlaAckSeq { link, seq } => {
                let i = *link % n;
                if !self.sets[i].remove(seq) {
                    // one other holder: any one is accepted; follow the implementation's choice
                    let holders: Vec<usize> = (0..n).filter(|k| *k != i && self.sets[*k].contains(seq)).collect();
                    let chosen: Vec<usize> = ctx.eff.acked.iter().filter(|(l, s, f)| *f && s == seq && holders.contains(l)).map(|(l, _, _)| *l).collect();
                    if !holders.is_empty() {
                        out.probe("c02k.srtla_ack_other_holder");
                        match chosen.as_slice() {
                            [k] => {
                                self.sets[*k].remove(seq);
                            }
                            other => out.violate("C02.srtla_ack", "holders", ctx.idx, format!("SRTLA ACK {seq}: holders {holders:?}, retired on {other:?} (exactly one expected)")),
                        }
                    }
                } else {
                    out.probe("c02k.srtla_ack_arrival_link");
                }
            }
            KEv::NakSeq { link, seq } => {
                if self.sets[*link % n].remove(seq) {
                    out.probe("c02k.nak");
                }
            }
            KEv::MarkForRecovery { link } | KEv::Reconnect { link } | KEv::Reg3 { link } => {
                self.sets[*link % n].clear();
                out.probe("c02k.reset");
            }
            _ => {}
        }
        for (i, c) in ctx.world.conns.iter().enumerate() {
            let real: BTreeSet<i32> = c.packet_log.keys().copied().collect();
            if c.in_flight_packets < 0 || c.in_flight_packets as usize != real.len() {
                out.violate("C02.count_vs_log", "", ctx.idx, format!("link {i}: in-flight {} but {} numbers logged", c.in_flight_packets, real.len()));
            }
            if real != self.sets[i] {
                let extra: Vec<i32> = real.difference(&self.sets[i]).copied().take(5).collect();
                let missing: Vec<i32> = self.sets[i].difference(&real).copied().take(5).collect();
                let label = if !extra.is_empty() && missing.is_empty() { "not_retired" } else if extra.is_empty() { "retired_without_cause" } else { "diverged" };
                out.violate(
                    "C02.in_flight",
                    label,
                    ctx.idx,
                    format!("link {i} after {:?}: in-flight {} but the set model has {} (implementation keeps {extra:?}, lacks {missing:?})", ctx.ev, c.in_flight_packets, self.sets[i].len()),
                );
                self.sets[i] = real;
            }
            if c.connected {
                let expect = c.window / (self.sets[i].len() as i32 + c.batch_sender.queued_count() + 1).max(1);
                if c.get_score() != expect {
                    out.violate("C02.score", "", ctx.idx, format!("link {i}: score {} vs {}", c.get_score(), expect));
                }
            }
        }
    }
}
