//! C01 — conservation ledger for the uplink path.
//!
//! Per link a FIFO model of the not-yet-flushed queue, fed from queue-depth
//! deltas (which link a datagram was queued on) and checked against every
//! `send_batch` call seen at the socket seam: byte-for-byte, in order, once.

use std::collections::{HashMap, VecDeque};

use srtla_send::net::verif_hooks::UplinkCall;

use super::{Truth, data_seq};
use crate::lsim::{LinkView, MonOut, Monitor, StepCtx, StepKind, abstract_state};

const M: &str = "C01";

struct QEntry {
    accept_idx: u64,
    bytes: Vec<u8>,
    probe: bool,
}

#[derive(Default)]
pub struct C01 {
    truth: Truth,
    queues: HashMap<u64, VecDeque<QEntry>>,
    data_since_probe: HashMap<u64, u64>,
    accepted: u64,
    on_wire: u64,
    excused: u64,
    outside: u64,
}

impl C01 {
    pub fn new() -> Self {
        Self::default()
    }

    /// Datagrams drained from `conn`'s queue by `send_batch` calls in `wire[range]`:
    /// the first call of a flush offers the whole queue (it never exceeds 32).
    fn process_flushes(
        &mut self,
        ctx: &StepCtx<'_>,
        lo: usize,
        hi: usize,
        views: &[LinkView],
        out: &mut MonOut,
    ) {
        // Group consecutive SendBatch calls per fd.
        let mut i = lo;
        while i < hi {
            let w = &ctx.wire[i];
            if w.call != UplinkCall::SendBatch {
                i += 1;
                continue;
            }
            let fd = w.fd;
            let mut j = i;
            while j < hi && ctx.wire[j].call == UplinkCall::SendBatch && ctx.wire[j].fd == fd {
                j += 1;
            }
            let Some(conn_id) = views.iter().find(|v| v.fd == Some(fd)).map(|v| v.conn_id) else {
                out.violate(
                    &format!("{M}.unknown_socket"),
                    "",
                    ctx.idx,
                    format!("stream datagrams written to fd {fd} which belongs to no uplink"),
                );
                i = j;
                continue;
            };
            let q = self.queues.entry(conn_id).or_default();
            match ctx.kind {
                StepKind::Flush => out.probe("c01.timer_flush"),
                StepKind::Client(_) => out.probe("c01.threshold_flush"),
                _ => {}
            }
            let mut first = true;
            let mut failed = false;
            for call in &ctx.wire[i..j] {
                if first {
                    first = false;
                    let expect = q.len().min(32);
                    if call.offered.len() != expect {
                        out.violate(
                            &format!("{M}.flush_size"),
                            "",
                            ctx.idx,
                            format!(
                                "flush of link {conn_id:x} offered {} datagrams but {} were queued",
                                call.offered.len(),
                                q.len()
                            ),
                        );
                    }
                }
                for (k, d) in call.offered.iter().enumerate() {
                    match q.get(k) {
                        Some(e) if e.bytes == *d => {}
                        Some(e) => {
                            let known_elsewhere = q.iter().any(|x| x.bytes == *d);
                            out.violate(
                                &format!("{M}.wire_mismatch"),
                                if known_elsewhere { "order" } else { "bytes" },
                                ctx.idx,
                                format!(
                                    "link {conn_id:x}: datagram {k} of a flush differs from the queued one (accept #{}, {} vs {} bytes)",
                                    e.accept_idx,
                                    d.len(),
                                    e.bytes.len()
                                ),
                            );
                            return;
                        }
                        None => {
                            out.violate(
                                &format!("{M}.wire_mismatch"),
                                "extra",
                                ctx.idx,
                                format!("link {conn_id:x}: flush carries a datagram that was never queued there ({} bytes)", d.len()),
                            );
                            return;
                        }
                    }
                }
                match call.result {
                    Ok(0) | Err(_) => {
                        failed = true;
                        if !call.injected_fault {
                            out.violate(
                                &format!("{M}.harness"),
                                "",
                                ctx.idx,
                                "send failed without an injected fault".into(),
                            );
                        }
                        break;
                    }
                    Ok(k) => {
                        let k = k.min(call.offered.len());
                        if k < call.offered.len() {
                            out.probe("c01.short_send");
                        }
                        for _ in 0..k {
                            if let Some(e) = q.pop_front() {
                                if e.probe {
                                    out.stats.inc("c01.probe_copies_on_wire");
                                } else {
                                    self.on_wire += 1;
                                }
                            }
                        }
                    }
                }
            }
            if failed {
                // The drained batch is gone: a send failure is one of the two
                // listed reasons for an accepted datagram not to be sent.
                let n = q.len() as u64;
                self.excused += n;
                out.stats.add("c01.excused_by_send_fault", n);
                out.probe("c01.flush_failed");
                q.clear();
            } else if !q.is_empty() {
                out.violate(
                    &format!("{M}.flush_incomplete"),
                    "",
                    ctx.idx,
                    format!("link {conn_id:x}: {} datagram(s) left behind by a successful flush", q.len()),
                );
            }
            i = j;
        }
    }

    fn reconcile(
        &mut self,
        ctx: &StepCtx<'_>,
        views: &[LinkView],
        excused_links: &[u64],
        phase: &str,
        out: &mut MonOut,
    ) {
        for v in views {
            let q = self.queues.entry(v.conn_id).or_default();
            if v.queued as usize == q.len() {
                continue;
            }
            if excused_links.contains(&v.conn_id) && v.queued == 0 {
                let n = q.len() as u64;
                self.excused += n;
                out.stats.add("c01.excused_by_link_reset", n);
                out.probe("c01.reset_with_queue");
                q.clear();
                continue;
            }
            let label = if (v.queued as usize) < q.len() { "lost" } else { "extra" };
            out.violate(
                &format!("{M}.queue_mismatch"),
                label,
                ctx.idx,
                format!(
                    "link {:x} after {} of a {} step: real queue holds {}, ledger expects {}",
                    v.conn_id,
                    phase,
                    ctx.kind.name(),
                    v.queued,
                    q.len()
                ),
            );
            // Resynchronise so one defect does not cascade.
            while q.len() > v.queued.max(0) as usize {
                q.pop_back();
            }
        }
    }
}

impl Monitor for C01 {
    fn on_step(&mut self, ctx: &StepCtx<'_>, out: &mut MonOut) {
        // Eligibility as of the decision (before this step's deliveries).
        let established = ctx.has_connected_pre;
        let usable_pre: Vec<u64> = ctx
            .pre
            .iter()
            .filter(|v| self.truth.usable_at_decision(v, ctx.now, ctx.cfg.conn_timeout_ms))
            .map(|v| v.conn_id)
            .collect();

        // ---- main action: where was the client datagram queued? ----
        if let StepKind::Client(Some(bytes)) = ctx.kind
            && !bytes.is_empty()
        {
            let mut placed: Vec<u64> = Vec::new();
            for pre in ctx.pre {
                let Some(mid) = ctx.mid.iter().find(|m| m.conn_id == pre.conn_id) else {
                    continue;
                };
                // Datagrams drained from this link during the main action.
                let drained: i64 = ctx.wire[..ctx.wire_mid]
                    .iter()
                    .enumerate()
                    .filter(|(k, w)| {
                        w.call == UplinkCall::SendBatch
                            && Some(w.fd) == pre.fd
                            && (*k == 0
                                || ctx.wire[*k - 1].fd != w.fd
                                || ctx.wire[*k - 1].call != UplinkCall::SendBatch)
                    })
                    .map(|(_, w)| w.offered.len() as i64)
                    .sum();
                let delta = mid.queued as i64 + drained - pre.queued as i64;
                if delta == 1 {
                    placed.push(pre.conn_id);
                } else if delta != 0 {
                    out.violate(
                        &format!("{M}.queue_delta"),
                        "",
                        ctx.idx,
                        format!("link {:x}: queue depth moved by {delta} for one client datagram", pre.conn_id),
                    );
                }
            }
            let selected = ctx
                .world
                .last_selected_idx
                .and_then(|i| ctx.mid.get(i))
                .map(|v| v.conn_id);
            let is_data = data_seq(bytes).is_some();
            if placed.is_empty() {
                if established && !usable_pre.is_empty() {
                    out.violate(
                        &format!("{M}.dropped"),
                        "",
                        ctx.idx,
                        format!(
                            "client datagram ({} bytes) was not queued on any uplink although {} uplink(s) are usable",
                            bytes.len(),
                            usable_pre.len()
                        ),
                    );
                } else {
                    self.outside += 1;
                    out.stats.inc("c01.accepted_outside_statement");
                }
            } else {
                self.accepted += 1;
                out.stats.inc("c01.accepted");
                let unique: Vec<u64> = placed
                    .iter()
                    .copied()
                    .filter(|c| Some(*c) == selected)
                    .collect();
                if unique.len() != 1 {
                    out.violate(
                        &format!("{M}.unique_copy"),
                        "",
                        ctx.idx,
                        format!(
                            "datagram queued on {:?} but the routing choice is {:?}",
                            placed, selected
                        ),
                    );
                }
                for c in &placed {
                    let probe = Some(*c) != selected;
                    if probe {
                        let v = ctx.mid.iter().find(|m| m.conn_id == *c).unwrap();
                        let since = self.data_since_probe.get(c).copied().unwrap_or(0) + 1;
                        // a probe whose own threshold flush failed resets the link (and its
                        // gated flag) inside this very step: judge the flag only if the link survived
                        let reset_in_step = ctx.pre.iter().any(|p| p.conn_id == *c && p.connected) && !v.connected;
                        let gated = v.private.stall_gated || reset_in_step;
                        let legal = gated && is_data && since >= 100 && established;
                        out.probe("c01.probe_copy");
                        if !legal {
                            out.violate(
                                &format!("{M}.extra_copy"),
                                if !gated {
                                    "not_gated"
                                } else if !is_data {
                                    "not_data"
                                } else {
                                    "budget"
                                },
                                ctx.idx,
                                format!(
                                    "duplicate copy queued on link {:x}: gated={} data={} routed data packets since its previous probe={}",
                                    c, v.private.stall_gated, is_data, since
                                ),
                            );
                        }
                    }
                    self.queues.entry(*c).or_default().push_back(QEntry {
                        accept_idx: self.accepted,
                        bytes: bytes.clone(),
                        probe,
                    });
                }
                if is_data {
                    for v in ctx.pre {
                        *self.data_since_probe.entry(v.conn_id).or_insert(0) += 1;
                    }
                    for c in &placed {
                        if Some(*c) != selected {
                            self.data_since_probe.insert(*c, 0);
                        }
                    }
                }
            }
        }

        // ---- wire sends of the main action, then state after it ----
        self.process_flushes(ctx, 0, ctx.wire_mid, ctx.pre, out);
        self.truth.update(ctx);
        let mut excused: Vec<u64> = self.truth.torn_down_now.clone();
        for id in &self.truth.removed_now {
            self.queues.remove(id);
        }
        // A delivered REG3 (re-registration) resets the link's queue.
        for (conn_id, b) in ctx.uplink {
            if let Some(t) = super::ptype(b)
                && (t == super::T_REG3)
                && !excused.contains(conn_id)
            {
                excused.push(*conn_id);
            }
        }
        self.reconcile(ctx, ctx.mid, &excused, "the main action", out);

        self.process_flushes(ctx, ctx.wire_mid, ctx.wire.len(), ctx.mid, out);
        self.reconcile(ctx, ctx.post, &excused, "the trailing drain", out);

        // ---- hold bounds ----
        for v in ctx.post {
            if v.queued > 32 {
                out.violate(
                    &format!("{M}.hold_bound"),
                    "batch",
                    ctx.idx,
                    format!("link {:x} holds {} datagrams (> 32)", v.conn_id, v.queued),
                );
            }
        }
        if matches!(ctx.kind, StepKind::Flush) {
            for v in ctx.post {
                if v.queued != 0 && v.fd.is_some() {
                    out.violate(
                        &format!("{M}.hold_bound"),
                        "flush_tick",
                        ctx.idx,
                        format!("link {:x} still holds {} datagrams after a flush tick", v.conn_id, v.queued),
                    );
                }
            }
        }
        if ctx.idx % 16 == 0 {
            out.states.push(abstract_state(ctx.post, ctx.now, &ctx.world.reg));
        }
    }

    fn on_finish(&mut self, _w: &crate::lsim::World, _e: &crate::lsim::env::Env, out: &mut MonOut) {
        out.stats.add("c01.on_wire", self.on_wire);
        out.stats.add("c01.excused_total", self.excused);
        if self.accepted > 0 {
            out.nontrivial = true;
        }
    }
}
