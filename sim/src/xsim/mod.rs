//! Engine X — control-socket simulation.
//!
//! The *real* per-connection task of `src/control_socket.rs` (`handle`, reached through hook
//! H12) runs on one end of a `UnixStream::pair()`; the simulator owns the other end, a publisher
//! and the schedule. Everything lives on one current-thread tokio runtime with a paused clock and
//! a seeded RNG (deterministic `select!` branch order), so a run is a function of its plan: which
//! actor acts next, how a client's byte stream is cut into writes, whether the last request ends
//! with a newline, when a client half-closes, how many events a publisher bursts, and how long
//! the server tasks may run between two actions (not at all / a few polls / to quiescence).
//!
//! Oracles (wire level, per client):
//! - C18: the responses read back equal, one by one and in order, what the real synchronous
//!   `dispatch` (the stdin entry point's core; `BufRead::lines` + `trim` mirrored) answers to the
//!   same lines on a configuration of its own, for every request other than the subscription
//!   methods; a request with an id gets exactly one response; after the run both configurations
//!   are equal (notifications were applied).
//! - C20: every pushed event carries a subscription id this client was given, under that
//!   subscription's topic, and per subscription the publication counters strictly increase
//!   (publication order, at most once).

use std::sync::Arc;

use serde::{Deserialize, Serialize};
use serde_json::Value;
use srtla_core::verif_hooks as core_hooks;
use srtla_send::config::DynamicConfig;
use srtla_send::net::verif_hooks as net_hooks;
use tokio::io::AsyncWriteExt;
use tokio::net::UnixStream;

use crate::common::{RunOutcome, Stats};
use crate::lsim::MonOut;
use crate::prng::{LogHash, Rng, hash3};

#[derive(Clone, Debug, Serialize, Deserialize, PartialEq)]
pub enum XOp {
    /// Client `c` writes the next `n` bytes of its stream.
    Write { c: usize, n: usize },
    /// Client `c` reads whatever has arrived.
    Read { c: usize },
    /// Client `c` half-closes (EOF for the server); it keeps reading.
    Shutdown { c: usize },
    /// Publish `n` events on a topic back to back, each padded with `pad` bytes of payload.
    Publish {
        topic: String,
        n: u32,
        #[serde(default)]
        pad: u32,
    },
    /// Virtual time passes (the paused clock advances once nothing is runnable): timers inside
    /// the server tasks fire while a client is not reading.
    Stall { ms: u64 },
    /// Let the server tasks run: 0 = a few polls, 1 = until nothing is runnable.
    Settle { deep: bool, polls: u32 },
}

#[derive(Clone, Debug, Serialize, Deserialize, PartialEq)]
pub struct XPlan {
    pub seed: u64,
    pub yield_points: bool,
    /// The request lines of each client (no line terminators inside).
    pub lines: Vec<Vec<String>>,
    /// Whether the client's last line is newline-terminated.
    pub last_terminated: Vec<bool>,
    /// CRLF instead of LF for this client.
    pub crlf: Vec<bool>,
    pub ops: Vec<XOp>,
}

impl XPlan {
    pub fn to_value(&self) -> Value {
        serde_json::to_value(self).expect("plan serialises")
    }
    pub fn from_value(v: &Value) -> Result<XPlan, String> {
        serde_json::from_value(v.clone()).map_err(|e| format!("bad X plan: {e}"))
    }
    fn stream(&self, c: usize) -> Vec<u8> {
        let nl: &str = if self.crlf[c] { "\r\n" } else { "\n" };
        let mut s = String::new();
        let n = self.lines[c].len();
        for (i, l) in self.lines[c].iter().enumerate() {
            s.push_str(l);
            if i + 1 < n || self.last_terminated[c] {
                s.push_str(nl);
            }
        }
        s.into_bytes()
    }
}

pub fn generate(seed: u64) -> XPlan {
    let mut r = Rng::new(seed ^ 0x50C3);
    let n_clients = r.range(1, 3) as usize;
    let mut lines = Vec::new();
    let mut last_terminated = Vec::new();
    let mut crlf = Vec::new();
    for _ in 0..n_clients {
        let k = r.range(1, 10) as usize;
        let mut ls: Vec<String> = Vec::new();
        for _ in 0..k {
            let l = match r.below(10) {
                // subscriptions matter here: bias towards them
                0..=2 => format!(
                    r#"{{"jsonrpc":"2.0","method":"subscribe","params":{{"topic":"{}"}},"id":{}}}"#,
                    r.pick(&["stats", "priority.window", "stats", "bogus"]),
                    r.range(1, 99)
                ),
                3 => format!(r#"{{"jsonrpc":"2.0","method":"unsubscribe","params":{{"subscription_id":"sub-{}"}},"id":{}}}"#, r.below(4), r.range(1, 99)),
                _ => crate::tsim::c18::gen_line(&mut r).replace(['\n', '\r'], " "),
            };
            ls.push(l);
        }
        lines.push(ls);
        last_terminated.push(r.chance(0.6));
        crlf.push(r.chance(0.15));
    }
    let mut plan = XPlan { seed, yield_points: r.chance(0.5), lines, last_terminated, crlf, ops: Vec::new() };
    // cut every stream into writes and interleave the actors
    let mut left: Vec<usize> = (0..n_clients).map(|c| plan.stream(c).len()).collect();
    let mut shut: Vec<bool> = vec![false; n_clients];
    let mut budget = 200;
    while budget > 0 && (left.iter().any(|l| *l > 0) || shut.iter().any(|s| !*s)) {
        budget -= 1;
        match r.below(10) {
            0..=4 => {
                let c = r.below(n_clients as u64) as usize;
                if left[c] > 0 {
                    let n = match r.below(4) {
                        0 => 1,
                        1 => r.range(1, 16) as usize,
                        2 => r.range(1, 200) as usize,
                        _ => left[c],
                    }
                    .min(left[c]);
                    left[c] -= n;
                    plan.ops.push(XOp::Write { c, n });
                } else if !shut[c] && r.chance(0.5) {
                    shut[c] = true;
                    plan.ops.push(XOp::Shutdown { c });
                }
            }
            5 => plan.ops.push(XOp::Read { c: r.below(n_clients as u64) as usize }),
            6 | 7 => plan.ops.push(XOp::Publish {
                topic: r.pick(&["stats", "priority.window", "stats", "other"]).to_string(),
                n: *r.pick(&[1u32, 1, 2, 3, 5, 9]),
                pad: 0,
            }),
            _ => plan.ops.push(XOp::Settle { deep: r.chance(0.5), polls: r.range(1, 6) as u32 }),
        }
        if r.chance(0.5) {
            plan.ops.push(XOp::Settle { deep: r.chance(0.6), polls: r.range(1, 4) as u32 });
        }
    }
    // a subscriber that stops reading while large events keep coming: the socket's buffer fills,
    // the connection task blocks in its write, time passes, then the client reads again
    if r.chance(0.3) {
        let c = r.below(n_clients as u64) as usize;
        plan.lines[c].insert(0, r#"{"jsonrpc":"2.0","method":"subscribe","params":{"topic":"stats"},"id":7}"#.to_string());
        // the stream changed: rebuild this client's writes as one write up front
        plan.ops.retain(|o| !matches!(o, XOp::Write { c: cc, .. } | XOp::Shutdown { c: cc } if *cc == c));
        let n = plan.stream(c).len();
        let mut bulk = vec![XOp::Write { c, n }, XOp::Settle { deep: true, polls: 1 }];
        for _ in 0..r.range(1, 3) {
            bulk.push(XOp::Publish { topic: "stats".into(), n: r.range(6, 14) as u32, pad: *r.pick(&[16_384u32, 32_768, 65_536]) });
            bulk.push(XOp::Stall { ms: r.range(100, 1_500) });
            bulk.push(XOp::Publish { topic: "stats".into(), n: r.range(1, 3) as u32, pad: *r.pick(&[0u32, 200, 16_384]) });
            bulk.push(XOp::Stall { ms: r.range(100, 900) });
        }
        bulk.push(XOp::Read { c });
        bulk.push(XOp::Settle { deep: true, polls: 1 });
        bulk.push(XOp::Read { c });
        let mut ops = bulk;
        ops.extend(std::mem::take(&mut plan.ops));
        plan.ops = ops;
        left[c] = 0;
        shut[c] = false;
    }
    for c in 0..n_clients {
        if left[c] > 0 {
            plan.ops.push(XOp::Write { c, n: left[c] });
        }
        if !shut[c] {
            plan.ops.push(XOp::Shutdown { c });
        }
    }
    plan
}

pub fn shrink(plan: &XPlan) -> Vec<XPlan> {
    let mut out = Vec::new();
    // fewer clients
    if plan.lines.len() > 1 {
        for drop in 0..plan.lines.len() {
            let mut p = plan.clone();
            p.lines.remove(drop);
            p.last_terminated.remove(drop);
            p.crlf.remove(drop);
            p.ops = p
                .ops
                .into_iter()
                .filter_map(|o| match o {
                    XOp::Write { c, .. } | XOp::Read { c } | XOp::Shutdown { c } if c == drop => None,
                    XOp::Write { c, n } if c > drop => Some(XOp::Write { c: c - 1, n }),
                    XOp::Read { c } if c > drop => Some(XOp::Read { c: c - 1 }),
                    XOp::Shutdown { c } if c > drop => Some(XOp::Shutdown { c: c - 1 }),
                    o => Some(o),
                })
                .collect();
            out.push(p);
        }
    }
    // fewer lines: rebuild the writes as one write per client followed by the shutdown
    for c in 0..plan.lines.len() {
        for i in 0..plan.lines[c].len() {
            if plan.lines[c].len() > 1 {
                let mut p = plan.clone();
                p.lines[c].remove(i);
                p.ops.retain(|o| !matches!(o, XOp::Write { c: cc, .. } | XOp::Shutdown { c: cc } if *cc == c));
                let n = p.stream(c).len();
                p.ops.push(XOp::Write { c, n });
                p.ops.push(XOp::Shutdown { c });
                out.push(p);
            }
        }
    }
    // drop non-write operations one by one
    for i in 0..plan.ops.len() {
        if !matches!(plan.ops[i], XOp::Write { .. } | XOp::Shutdown { .. }) {
            let mut p = plan.clone();
            p.ops.remove(i);
            out.push(p);
        }
    }
    if plan.yield_points {
        let mut p = plan.clone();
        p.yield_points = false;
        out.push(p);
    }
    out
}

struct Client {
    sock: UnixStream,
    cw: srtla_core::priority::CriticalWindow,
    stream: Vec<u8>,
    pos: usize,
    recv: Vec<u8>,
    eof: bool,
    shut: bool,
    cfg: DynamicConfig,
}

fn drain(c: &mut Client) {
    let mut buf = [0u8; 4096];
    loop {
        match c.sock.try_read(&mut buf) {
            Ok(0) => {
                c.eof = true;
                break;
            }
            Ok(n) => c.recv.extend_from_slice(&buf[..n]),
            Err(_) => break,
        }
    }
}

async fn settle(deep: bool, polls: u32) {
    if deep {
        // paused clock: the sleep returns once nothing else is runnable (and the I/O driver has
        // been polled), i.e. the server tasks have run to quiescence
        tokio::time::sleep(std::time::Duration::from_millis(1)).await;
    } else {
        for _ in 0..polls {
            tokio::task::yield_now().await;
        }
    }
}

pub fn execute(plan: &XPlan, want_excerpt: bool) -> RunOutcome {
    crate::lsim::clear_thread_seams();
    let mut seed_bytes = [0u8; 32];
    Rng::new(hash3(plan.seed, 0x5EED, 1)).fill(&mut seed_bytes);
    let rt = tokio::runtime::Builder::new_current_thread()
        .enable_all()
        .start_paused(true)
        .rng_seed(tokio::runtime::RngSeed::from_bytes(&seed_bytes))
        .build()
        .expect("tokio runtime");
    let local = tokio::task::LocalSet::new();
    let outcome = local.block_on(&rt, run(plan, want_excerpt));
    drop(local);
    drop(rt);
    crate::lsim::clear_thread_seams();
    outcome
}

async fn run(plan: &XPlan, want_excerpt: bool) -> RunOutcome {
    let mut out = MonOut::default();
    let mut stats = Stats::default();
    let mut excerpt: Vec<String> = Vec::new();
    core_hooks::set_clock(Some(1_000_000 + plan.seed % 1_000_000));
    net_hooks::set_yield_points(plan.yield_points);
    let hub = srtla_send::subscriptions::SubscriptionHub::new();
    let shared_stats = srtla_send::stats::SharedStats::new();
    let mut clients: Vec<Client> = Vec::new();
    let mut tasks = Vec::new();
    for c in 0..plan.lines.len() {
        let (a, b) = match UnixStream::pair() {
            Ok(p) => p,
            Err(e) => panic!("socketpair: {e}"),
        };
        let cfg = DynamicConfig::new();
        let cw = srtla_core::priority::CriticalWindow::new();
        tasks.push(tokio::task::spawn_local(srtla_send::control_socket::verif_hooks::handle_connection(
            b,
            cfg.clone(),
            shared_stats.clone(),
            cw.clone(),
            hub.clone(),
        )));
        clients.push(Client { sock: a, cw, stream: plan.stream(c), pos: 0, recv: Vec::new(), eof: false, shut: false, cfg });
    }
    let mut published: u64 = 0;
    for (i, op) in plan.ops.iter().enumerate() {
        match op {
            XOp::Write { c, n } => {
                let Some(cl) = clients.get_mut(*c) else { continue };
                if cl.shut {
                    continue;
                }
                let end = (cl.pos + n).min(cl.stream.len());
                if end > cl.pos {
                    // a socket pair's buffer is far larger than any stream generated here
                    if cl.sock.write_all(&cl.stream[cl.pos..end]).await.is_err() {
                        stats.inc("x.client_write_failed");
                    }
                    cl.pos = end;
                    stats.inc("x.client_write");
                }
            }
            XOp::Read { c } => {
                if let Some(cl) = clients.get_mut(*c) {
                    drain(cl);
                }
            }
            XOp::Shutdown { c } => {
                if let Some(cl) = clients.get_mut(*c)
                    && !cl.shut
                {
                    // what was never written is not part of the stream the server saw
                    cl.stream.truncate(cl.pos);
                    let _ = cl.sock.shutdown().await;
                    cl.shut = true;
                    stats.inc("fault.client_half_close");
                    if cl.stream.last().is_some_and(|b| *b != b'\n') {
                        stats.inc("fault.unterminated_last_request");
                    }
                }
            }
            XOp::Stall { ms } => {
                tokio::time::sleep(std::time::Duration::from_millis(*ms)).await;
                stats.inc("fault.client_not_reading_while_time_passes");
            }
            XOp::Publish { topic, n, pad } => {
                for _ in 0..*n {
                    published += 1;
                    if *pad > 0 {
                        hub.publish(topic, serde_json::json!({ "n": published, "pad": "x".repeat(*pad as usize) })).await;
                        stats.inc("x.large_event");
                    } else {
                        hub.publish(topic, serde_json::json!({ "n": published })).await;
                    }
                }
                stats.add("x.published", *n as u64);
                if *n > 1 {
                    stats.inc("x.publish_burst");
                }
            }
            XOp::Settle { deep, polls } => settle(*deep, *polls).await,
        }
        if want_excerpt {
            excerpt.push(format!("#{i} {op:?}"));
        }
    }
    // everybody half-closes, the server tasks finish, the clients read to EOF
    for cl in clients.iter_mut() {
        if !cl.shut {
            cl.stream.truncate(cl.pos);
            let _ = cl.sock.shutdown().await;
            cl.shut = true;
        }
    }
    for _ in 0..50 {
        settle(true, 0).await;
        for cl in clients.iter_mut() {
            drain(cl);
        }
        if tasks.iter().all(|t| t.is_finished()) && clients.iter().all(|c| c.eof) {
            break;
        }
    }
    for (c, t) in tasks.iter().enumerate() {
        if !t.is_finished() {
            out.violate("C18.socket", "connection_task_stuck", c as u64, format!("the connection task of client {c} has not ended after its peer half-closed and everything was drained"));
        }
    }
    for t in tasks {
        t.abort();
        if let Err(e) = t.await
            && e.is_panic()
        {
            std::panic::resume_unwind(e.into_panic());
        }
    }
    // ---- oracles ----
    let mut log = LogHash::default();
    let mut all_ids: Vec<(usize, String)> = Vec::new();
    let mut event_ids: Vec<(usize, String)> = Vec::new();
    for (c, cl) in clients.iter().enumerate() {
        log.bytes(&cl.recv);
        judge_client(c, cl, &shared_stats, &mut all_ids, &mut event_ids, &mut out, &mut stats);
        if want_excerpt {
            excerpt.push(format!("client {c} sent {:?}", String::from_utf8_lossy(&cl.stream)));
            excerpt.push(format!("client {c} got  {:?}", String::from_utf8_lossy(&cl.recv)));
        }
    }
    for (c, id) in &event_ids {
        if let Some((owner, _)) = all_ids.iter().find(|(o, i)| i == id && o != c) {
            out.violate("C20.socket", "foreign_subscription", *c as u64, format!("client {c} received an event for subscription {id:?}, which was handed to client {owner}"));
        }
    }
    if hub.len().await != 0 {
        out.violate("C20.pruning", "socket_left_subscriptions", 0, format!("{} subscriptions left in the hub after every connection ended", hub.len().await));
    }
    stats.merge(&out.stats);
    RunOutcome {
        violations: out.violations,
        log_hash: log.0,
        nontrivial: true,
        inconclusive: false,
        stats,
        states: Vec::new(),
        transitions: Vec::new(),
        excerpt,
        sim_time_ms: 0,
    }
}

fn method_of(line: &str) -> Option<String> {
    serde_json::from_str::<Value>(line).ok()?.get("method")?.as_str().map(|s| s.to_string())
}

#[allow(clippy::too_many_arguments)]
fn judge_client(
    c: usize,
    cl: &Client,
    shared_stats: &srtla_send::stats::SharedStats,
    all_ids: &mut Vec<(usize, String)>,
    event_ids: &mut Vec<(usize, String)>,
    out: &mut MonOut,
    stats: &mut Stats,
) {
    // what the stdin entry point would have read: BufRead::lines + trim
    let text = String::from_utf8_lossy(&cl.stream).to_string();
    let mut req_lines: Vec<&str> = text.split('\n').collect();
    if req_lines.last().is_some_and(|l| l.is_empty()) {
        req_lines.pop();
    }
    let ref_cfg = DynamicConfig::new();
    let ref_cw = srtla_core::priority::CriticalWindow::new();
    let mut expected: Vec<(String, bool, String)> = Vec::new(); // (request, subscription method, stdin's response)
    for l in &req_lines {
        let t = l.trim();
        let sub = matches!(method_of(t).as_deref(), Some("subscribe" | "unsubscribe" | "get_subscription_count"));
        if let Some(resp) = srtla_send::control::dispatch(&ref_cfg, Some(shared_stats), Some(&ref_cw), t) {
            expected.push((t.to_string(), sub, resp.to_json()));
        }
    }
    let got_text = String::from_utf8_lossy(&cl.recv).to_string();
    let mut responses: Vec<Value> = Vec::new();
    let mut my_subs: Vec<(String, String)> = Vec::new(); // (id, topic)
    let mut last_n: std::collections::HashMap<String, u64> = std::collections::HashMap::new();
    let mut sub_requests = req_lines.iter().filter(|l| method_of(l.trim()).as_deref() == Some("subscribe"));
    let _ = &mut sub_requests;
    for (k, line) in got_text.split('\n').enumerate() {
        if line.is_empty() {
            continue;
        }
        let v: Value = match serde_json::from_str(line) {
            Ok(v) => v,
            Err(e) => {
                let shown: String = line.chars().take(160).collect();
                out.violate("C18.socket", "malformed_output", k as u64, format!("client {c}: line {k} from the server ({} bytes) is not JSON ({e}): {shown:?}", line.len()));
                out.violate("C20.socket", "torn_event_line", k as u64, format!("client {c}: line {k} from the server ({} bytes) is not a JSON-RPC message ({e}): {shown:?}", line.len()));
                continue;
            }
        };
        if let Some(m) = v.get("method").and_then(Value::as_str) {
            // a pushed event
            stats.inc("x.event_received");
            let topic = m.strip_suffix(".update").unwrap_or(m).to_string();
            let id = v["params"]["subscription_id"].as_str().unwrap_or("").to_string();
            let n = v["params"]["data"]["n"].as_u64().unwrap_or(0);
            // (a subscribe sent as a notification creates a subscription whose id the client is
            // never told: an unknown id is judged against the other clients' ids after the run)
            match my_subs.iter().find(|(i, _)| *i == id) {
                None => event_ids.push((c, id.clone())),
                // (which topic a subscription has is the hub's business and judged by engine T)
                Some(_) => {
                    let _ = &topic;
                }
            }
            let last = last_n.entry(id.clone()).or_insert(0);
            if n <= *last {
                out.violate(
                    "C20.socket",
                    if n == *last { "duplicate" } else { "out_of_order" },
                    k as u64,
                    format!("client {c}, subscription {id}: event #{n} arrived after event #{last} (publication order is the counter order)"),
                );
            } else {
                if *last != 0 {
                    out.probe("x.second_event_on_subscription");
                }
                *last = n;
            }
        } else {
            if let Some(id) = v["result"]["subscription_id"].as_str() {
                // which topic: the k-th successful subscribe answers the k-th subscribe request with a known topic
                let topic = req_lines
                    .iter()
                    .filter_map(|l| {
                        let v: Value = serde_json::from_str(l.trim()).ok()?;
                        (v.get("method")?.as_str()? == "subscribe" && v.get("jsonrpc")?.as_str()? == "2.0").then(|| v["params"]["topic"].as_str().map(|s| s.to_string()))?
                    })
                    .filter(|t| t == "stats" || t == "priority.window")
                    .nth(my_subs.len())
                    .unwrap_or_default();
                if all_ids.iter().any(|(_, i)| i == id) {
                    out.violate("C20.socket", "id_not_unique", k as u64, format!("subscription id {id} was handed out twice"));
                }
                all_ids.push((c, id.to_string()));
                my_subs.push((id.to_string(), topic));
                stats.inc("x.subscribed");
            }
            responses.push(v);
        }
    }
    // ---- C18: the socket answers what stdin answers ----
    out.probe("x.client_judged");
    if !cl.eof {
        return;
    }
    for (k, (req, sub, exp)) in expected.iter().enumerate() {
        stats.inc("x.request_with_response_expected");
        let Some(got) = responses.get(k) else {
            out.violate(
                "C18.socket",
                if k + 1 == expected.len() && cl.stream.last().is_some_and(|b| *b != b'\n') { "unterminated_last_request_unanswered" } else { "missing_response" },
                k as u64,
                format!("client {c}: request {req:?} got no response on the socket ({} responses for {} answerable requests); stdin answers {exp}", responses.len(), expected.len()),
            );
            break;
        };
        let e: Value = serde_json::from_str(exp).unwrap_or(Value::Null);
        if *sub {
            // subscription methods: the transports differ by design; the id is echoed alike
            if got.get("id") != e.get("id") {
                out.violate("C18.socket", "id_not_echoed", k as u64, format!("client {c}: request {req:?} answered with id {:?}, stdin echoes {:?}", got.get("id"), e.get("id")));
            }
        } else if *got != e {
            out.violate("C18.socket", "entry_points_differ", k as u64, format!("client {c}: request {req:?}: socket answered {got}, stdin answers {e}"));
            break;
        }
    }
    if responses.len() > expected.len() {
        out.violate("C18.socket", "extra_response", 0, format!("client {c}: {} responses for {} answerable requests: {:?}", responses.len(), expected.len(), responses.last()));
    }
    let (a, b) = (format!("{:?}", cl.cfg.snapshot()), format!("{:?}", ref_cfg.snapshot()));
    if a != b {
        out.violate("C18.socket", "not_applied", 0, format!("client {c}: configuration after the socket session {a}, after the same lines on stdin {b}"));
    }
    let _ = (Arc::new(()), &cl.cw);
}
