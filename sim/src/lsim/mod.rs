//! Engine L — event-loop simulation.
//!
//! The simulator *is* the `select!` loop of `run_sender_with_config`: it owns
//! virtual time, decides which arm runs next, and calls the real shell
//! functions (through `sender::verif_hooks`) with the real loop state. Uplink
//! and client sockets are intercepted in memory; the network, the SRTLA
//! receiver and the SRT endpoint are seeded models (see `env.rs`).

pub mod env;
pub mod plan;

use std::cell::RefCell;
use std::collections::{BTreeMap, BinaryHeap, HashMap, VecDeque};
use std::net::{IpAddr, Ipv4Addr, SocketAddr};
use std::rc::Rc;
use std::sync::Arc;

use smallvec::SmallVec;
use srtla_core::connection::{LinkPhase, SrtlaConnection};
use srtla_core::registration::SrtlaRegistrationManager;
use srtla_core::verif_hooks as core_hooks;
use srtla_send::config::DynamicConfig;
use srtla_send::net::UplinkBinder;
use srtla_send::net::verif_hooks as net_hooks;
use srtla_send::net::verif_hooks::{ClientCall, UplinkCall};
use srtla_send::sender::verif_hooks as sh;
use srtla_send::sender::{PendingConnectionChanges, apply_connection_changes, create_connections_from_ips};
use tokio::net::UdpSocket;

use crate::common::{RunOutcome, Stats, Violation};
use crate::prng::{LogHash, Rng, hash3};
use env::{Env, NetDir};
use plan::{Action, LPlan};

pub const HK_PERIOD_MS: u64 = 1000;
pub const FLUSH_PERIOD_MS: u64 = 15;
pub const RECEIVER_PORT: u16 = 5000;

/// Light per-link snapshot taken before / in the middle of / after every step.
#[derive(Clone, Debug)]
pub struct LinkView {
    pub conn_id: u64,
    pub ip: IpAddr,
    pub fd: Option<i32>,
    pub connected: bool,
    pub window: i32,
    pub in_flight: i32,
    pub queued: i32,
    pub last_received: Option<u64>,
    pub last_sent: Option<u64>,
    pub last_keepalive_sent: Option<u64>,
    pub proof_ms: u64,
    pub nak_count: i32,
    pub nak_burst: i32,
    pub last_nak_ms: u64,
    pub fast_recovery: bool,
    pub phase: LinkPhase,
    pub established_ms: u64,
    pub failure_count: u32,
    pub last_attempt_ms: u64,
    pub grace_deadline_ms: u64,
    pub private: core_hooks::VerifPrivate,
    pub weak: bool,
    pub loss_degraded: bool,
    pub cc_target_bps: u64,
    pub bitrate_bps: f64,
    pub bytes_sent_total: u64,
    pub srtt: f64,
    pub rtt_min: f64,
    pub kalman_raw: f64,
    pub waiting_ka: bool,
    pub ka_sent_ms: u64,
    pub last_rtt_meas_ms: u64,
    pub score: i32,
}

impl LinkView {
    pub fn of(c: &SrtlaConnection, io: &sh::ConnIoMap) -> LinkView {
        LinkView {
            conn_id: c.conn_id,
            ip: c.local_ip,
            fd: io.get(&c.conn_id).map(|i| i.socket.as_raw_fd()),
            connected: c.connected,
            window: c.window,
            in_flight: c.in_flight_packets,
            queued: c.batch_sender.queued_count(),
            last_received: c.last_received,
            last_sent: c.last_sent,
            last_keepalive_sent: c.last_keepalive_sent,
            proof_ms: c.last_ack_or_rtt_sample_ms,
            nak_count: c.congestion.nak_count,
            nak_burst: c.congestion.nak_burst_count,
            last_nak_ms: c.congestion.last_nak_time_ms,
            fast_recovery: c.congestion.fast_recovery_mode,
            phase: c.phase,
            established_ms: c.reconnection.connection_established_ms,
            failure_count: c.reconnection.reconnect_failure_count,
            last_attempt_ms: c.reconnection.last_reconnect_attempt_ms,
            grace_deadline_ms: c.reconnection.startup_grace_deadline_ms,
            private: c.verif_private(),
            weak: c.weak,
            loss_degraded: c.loss_degraded,
            cc_target_bps: c.cc_target_bps,
            bitrate_bps: c.bitrate.current_bitrate_bps,
            bytes_sent_total: c.bitrate.bytes_sent_total,
            srtt: c.get_smooth_rtt_ms(),
            rtt_min: c.get_rtt_min_ms(),
            kalman_raw: c.rtt.kalman_rtt.value(),
            waiting_ka: c.rtt.waiting_for_keepalive_response,
            ka_sent_ms: c.rtt.last_keepalive_sent_ms,
            last_rtt_meas_ms: c.rtt.last_rtt_measurement_ms,
            score: c.get_score(),
        }
    }
}

pub fn views(w: &World) -> Vec<LinkView> {
    w.conns.iter().map(|c| LinkView::of(c, &w.conn_io)).collect()
}

pub fn find_view(v: &[LinkView], conn_id: u64) -> Option<&LinkView> {
    v.iter().find(|x| x.conn_id == conn_id)
}

/// One call of an uplink send primitive, as seen by the interceptor.
#[derive(Clone, Debug)]
pub struct WireSend {
    /// Virtual time of the call.
    pub t: u64,
    pub fd: i32,
    /// Sim path (uplink address) the socket belongs to; `None` if unknown.
    pub path: Option<usize>,
    pub call: UplinkCall,
    pub offered: Vec<Vec<u8>>,
    /// `Ok(k)`: first `k` datagrams went out. `Err(kind)`: injected failure.
    pub result: Result<usize, std::io::ErrorKind>,
    pub injected_fault: bool,
}

#[derive(Clone, Debug)]
pub struct ClientOut {
    pub t: u64,
    /// "try_send_to", "send_to" or "instant" (the mirrored forwarding task).
    pub via: &'static str,
    pub bytes: Vec<u8>,
    pub result: Result<usize, std::io::ErrorKind>,
    /// Address the datagram was sent to.
    pub target: SocketAddr,
}

#[derive(Clone, Debug)]
pub enum StepKind {
    /// Client arm: one datagram from the local SRT endpoint (`None` = recv error).
    Client(Option<Vec<u8>>),
    /// Uplink arm.
    Uplink,
    Housekeeping,
    Flush,
    Sighup,
}

impl StepKind {
    pub fn code(&self) -> u64 {
        match self {
            StepKind::Client(_) => 1,
            StepKind::Uplink => 2,
            StepKind::Housekeeping => 3,
            StepKind::Flush => 4,
            StepKind::Sighup => 5,
        }
    }
    pub fn name(&self) -> &'static str {
        match self {
            StepKind::Client(_) => "client",
            StepKind::Uplink => "uplink",
            StepKind::Housekeeping => "housekeeping",
            StepKind::Flush => "flush",
            StepKind::Sighup => "sighup",
        }
    }
}

/// Exact state around `apply_connection_changes` (taken inside the housekeeping arm).
pub struct ReloadSnap {
    pub list: Vec<IpAddr>,
    pub before: Vec<(SrtlaConnection, Option<i32>)>,
    pub after: Vec<(SrtlaConnection, Option<i32>)>,
    pub selected_before: Option<usize>,
    pub selected_after: Option<usize>,
    pub io_keys_after: Vec<u64>,
    pub binds_failed: u64,
}

/// Everything a monitor may look at for one step.
pub struct StepCtx<'a> {
    pub idx: u64,
    pub now: u64,
    pub kind: &'a StepKind,
    pub pre: &'a [LinkView],
    /// After the arm's main action, before the trailing `drain_packet_queue`.
    pub mid: &'a [LinkView],
    pub post: &'a [LinkView],
    /// Uplink datagrams processed in this step, in order: `(conn_id, bytes)`.
    pub uplink: &'a [(u64, Vec<u8>)],
    /// How many wire sends happened before the trailing drain started.
    pub wire_mid: usize,
    pub client_mid: usize,
    pub wire: &'a [WireSend],
    pub client_out: &'a [ClientOut],
    pub world: &'a World,
    pub pre_full: Option<&'a [SrtlaConnection]>,
    pub cfg: srtla_core::ConfigSnapshot,
    pub has_connected_pre: bool,
    pub last_selected_pre: Option<usize>,
    pub client_addr_pre: Option<SocketAddr>,
    /// Source address the SRT endpoint's datagrams carry in this step.
    pub client_src: SocketAddr,
    pub critical_pre: bool,
    pub env: &'a Env,
    pub plan: &'a LPlan,
    /// Reload applied in this housekeeping step: the IP list handed to apply.
    pub reload_applied: Option<&'a [IpAddr]>,
    /// Sighup step: result of the analysis (`Ok(ips)` queued, `Err(())` refused).
    pub reload_analysis: Option<&'a Result<Vec<IpAddr>, String>>,
    pub reload_text: Option<&'a Option<String>>,
    pub reload_snap: Option<&'a ReloadSnap>,
}

pub trait Monitor {
    fn wants_full_pre(&self, _kind: &StepKind) -> bool {
        false
    }
    fn on_start(&mut self, _world: &World, _plan: &LPlan) {}
    fn on_step(&mut self, ctx: &StepCtx<'_>, out: &mut MonOut);
    fn on_finish(&mut self, _world: &World, _env: &Env, _out: &mut MonOut) {}
}

/// What a monitor reports.
#[derive(Default)]
pub struct MonOut {
    pub violations: Vec<Violation>,
    pub stats: Stats,
    pub nontrivial: bool,
    pub states: Vec<u64>,
}

impl MonOut {
    pub fn violate(&mut self, monitor: &str, label: &str, step: u64, message: String) {
        if self.violations.len() < 64 {
            self.violations
                .push(Violation::new(monitor, label, step, message));
        }
    }
    pub fn probe(&mut self, name: &str) {
        self.stats.inc(name);
        self.nontrivial = true;
    }
}

/// The loop state of `run_sender_with_config`.
pub struct World {
    pub conns: SmallVec<SrtlaConnection, 4>,
    pub conn_io: sh::ConnIoMap,
    pub reg: SrtlaRegistrationManager,
    pub packet_tx: tokio::sync::mpsc::UnboundedSender<sh::UplinkPacket>,
    pub packet_rx: tokio::sync::mpsc::UnboundedReceiver<sh::UplinkPacket>,
    pub instant_tx: sh::InstantForwarder,
    pub instant_rx: tokio::sync::mpsc::UnboundedReceiver<(SocketAddr, SmallVec<u8, 64>)>,
    pub listener: Arc<UdpSocket>,
    pub recv_buf: Vec<u8>,
    pub seq_tracker: sh::SequenceTracker,
    pub last_selected_idx: Option<usize>,
    pub last_client_addr: Option<SocketAddr>,
    pub all_failed_at: Option<u64>,
    pub pending_changes: Option<PendingConnectionChanges>,
    pub weak_filter: srtla_core::selection::classifier::WeakLinkFilter,
    pub cc: srtla_core::selection::link_cc::LinkCcController,
    pub config: DynamicConfig,
    pub critical: srtla_core::priority::CriticalWindow,
    pub stats: srtla_send::stats::SharedStats,
    pub hub: srtla_send::subscriptions::SubscriptionHub,
    pub binder: Arc<dyn UplinkBinder>,
    pub readers: HashMap<sh::ConnectionId, sh::ReaderHandle>,
    pub ips_file: String,
    pub receiver_host: String,
    pub housekeeping_errors: u64,
    pub last_classification: Option<srtla_core::selection::classifier::ClassificationResult>,
    pub last_cc: Option<HashMap<u64, srtla_core::selection::link_cc::LinkCcSnapshot>>,
}

/// Shared between the interceptors, the binder and the simulator.
#[derive(Default)]
pub struct Seam {
    pub wire: Vec<WireSend>,
    pub client: Vec<ClientOut>,
    /// fd -> path, learned from the binder at socket creation.
    pub fd_path: HashMap<i32, usize>,
    /// ip -> path.
    pub ip_path: BTreeMap<IpAddr, usize>,
    /// Current socket generation per path (bumped on every new socket).
    pub path_gen: Vec<u64>,
    pub path_fd: Vec<i32>,
    pub path_ip: Vec<IpAddr>,
    /// Pending injected send faults per path.
    pub send_faults: Vec<Vec<SendFault>>,
    /// Paths whose bind currently fails.
    pub bind_fail: Vec<bool>,
    pub client_faults: Vec<ClientFault>,
    pub fired: Stats,
    pub binds: u64,
    /// Engine W: conn ids are internal to the real loop; learned from creation order.
    pub fd_conn: HashMap<i32, u64>,
    pub path_conn: Vec<Option<u64>>,
    pub last_bound: Option<(i32, usize)>,
}

#[derive(Clone, Debug)]
pub struct SendFault {
    pub call: Option<UplinkCall>,
    /// "err:<kind>", "zero", "short"
    pub kind: String,
    pub remaining: u32,
}

#[derive(Clone, Debug)]
pub struct ClientFault {
    /// "wouldblock" or "err"
    pub kind: String,
    pub remaining: u32,
}

impl Seam {
    pub fn path_for_ip(&mut self, ip: IpAddr) -> usize {
        if let Some(p) = self.ip_path.get(&ip) {
            return *p;
        }
        let p = self.path_gen.len();
        self.ip_path.insert(ip, p);
        self.path_gen.push(0);
        self.path_fd.push(-1);
        self.path_ip.push(ip);
        self.send_faults.push(Vec::new());
        self.bind_fail.push(false);
        self.path_conn.push(None);
        p
    }
}

pub struct SimBinder {
    pub seam: SeamHandle,
}

/// `Rc<RefCell<Seam>>` behind a Send+Sync wrapper: the binder trait requires
/// `Send + Sync`, but every object of one run lives on one thread.
#[derive(Clone)]
pub struct SeamHandle(Rc<RefCell<Seam>>);
unsafe impl Send for SeamHandle {}
unsafe impl Sync for SeamHandle {}

impl SeamHandle {
    pub fn new() -> Self {
        SeamHandle(Rc::new(RefCell::new(Seam::default())))
    }
    pub fn with<R>(&self, f: impl FnOnce(&mut Seam) -> R) -> R {
        f(&mut self.0.borrow_mut())
    }
}

impl UplinkBinder for SimBinder {
    fn bind(&self, sock: &socket2::Socket, ip: IpAddr) -> anyhow::Result<()> {
        use std::os::fd::AsRawFd;
        let fd = sock.as_raw_fd();
        let fail = self.seam.with(|s| {
            let p = s.path_for_ip(ip);
            s.binds += 1;
            if s.bind_fail[p] {
                s.fired.inc("fault.bind_failure");
                true
            } else {
                s.path_gen[p] += 1;
                s.path_fd[p] = fd;
                s.fd_path.insert(fd, p);
                if let Some(id) = s.path_conn[p] {
                    s.fd_conn.insert(fd, id);
                }
                s.last_bound = Some((fd, p));
                false
            }
        });
        if fail {
            anyhow::bail!("injected bind failure for {ip}");
        }
        // A real bind so that the socket is a valid, inert handle.
        let addr = SocketAddr::new(ip, 0);
        sock.bind(&addr.into())
            .map_err(|e| anyhow::anyhow!("bind {ip}: {e}"))
    }
}

fn kind_of(s: &str) -> std::io::ErrorKind {
    match s {
        "err:unreach" => std::io::ErrorKind::NetworkUnreachable,
        "err:refused" => std::io::ErrorKind::ConnectionRefused,
        "err:perm" => std::io::ErrorKind::PermissionDenied,
        _ => std::io::ErrorKind::Other,
    }
}

pub fn install_interceptors(seam: &SeamHandle) {
    let s1 = seam.clone();
    net_hooks::set_uplink_interceptor(Some(Box::new(move |fd, call, bufs| {
        s1.with(|s| {
            let path = s.fd_path.get(&fd).copied();
            let mut result: Result<usize, std::io::ErrorKind> = Ok(match call {
                UplinkCall::Send => bufs[0].len(),
                UplinkCall::SendBatch => bufs.len(),
            });
            let mut injected = false;
            if let Some(p) = path {
                if let Some(pos) = s.send_faults[p]
                    .iter()
                    .position(|f| f.remaining > 0 && f.call.is_none_or(|c| c == call))
                {
                    let f = &mut s.send_faults[p][pos];
                    f.remaining -= 1;
                    let kind = f.kind.clone();
                    injected = true;
                    match kind.as_str() {
                        "zero" if call == UplinkCall::SendBatch => {
                            result = Ok(0);
                            s.fired.inc("fault.send_zero_progress");
                        }
                        "short" if call == UplinkCall::SendBatch && bufs.len() > 1 => {
                            result = Ok(1 + (bufs.len() - 1) / 2);
                            s.fired.inc("fault.short_send");
                        }
                        k if k.starts_with("err:") => {
                            result = Err(kind_of(k));
                            s.fired.inc("fault.send_error");
                        }
                        _ => {
                            injected = false;
                        }
                    }
                }
            }
            s.wire.push(WireSend {
                t: srtla_core::utils::now_ms(),
                fd,
                path,
                call,
                offered: bufs.iter().map(|b| b.to_vec()).collect(),
                result,
                injected_fault: injected,
            });
            Some(match result {
                Ok(n) => Ok(n),
                Err(k) => Err(std::io::Error::new(k, "injected send failure")),
            })
        })
    })));
    let s2 = seam.clone();
    net_hooks::set_client_interceptor(Some(Box::new(move |call, buf, target| {
        s2.with(|s| {
            let mut result: Result<usize, std::io::ErrorKind> = Ok(buf.len());
            if let Some(pos) = s.client_faults.iter().position(|f| f.remaining > 0) {
                let f = &mut s.client_faults[pos];
                let apply = match (f.kind.as_str(), call) {
                    ("wouldblock", ClientCall::TrySendTo) => {
                        result = Err(std::io::ErrorKind::WouldBlock);
                        true
                    }
                    ("err", _) | ("err_try", ClientCall::TrySendTo) => {
                        result = Err(std::io::ErrorKind::ConnectionRefused);
                        true
                    }
                    _ => false,
                };
                if apply {
                    f.remaining -= 1;
                    let k = if f.kind == "wouldblock" {
                        "fault.client_wouldblock"
                    } else {
                        "fault.client_send_error"
                    };
                    s.fired.inc(k);
                }
            }
            s.client.push(ClientOut {
                t: srtla_core::utils::now_ms(),
                via: match call {
                    ClientCall::SendTo => "send_to",
                    ClientCall::TrySendTo => "try_send_to",
                },
                bytes: buf.to_vec(),
                result,
                target,
            });
            Some(match result {
                Ok(n) => Ok(n),
                Err(k) => Err(std::io::Error::new(k, "injected client-socket failure")),
            })
        })
    })));
}

pub fn clear_thread_seams() {
    net_hooks::set_sighup_source(None);
    net_hooks::set_uplink_interceptor(None);
    net_hooks::set_client_interceptor(None);
    net_hooks::set_yield_points(false);
    core_hooks::set_clock(None);
    core_hooks::set_clock_fn(None);
    core_hooks::set_byte_source(None);
    sh::set_conn_id_source(None);
    net_hooks::set_listener_source(None);
    let _ = sh::take_uplink_channel();
}

#[derive(Debug, Clone, PartialEq, Eq, PartialOrd, Ord)]
pub enum Ev {
    /// A datagram from the SRT endpoint reaches the local listener.
    ClientEmit(Vec<u8>),
    /// A datagram reaches the sender's uplink socket of `path` (socket generation `sgen`).
    ToSender { path: usize, sgen: u64, bytes: Vec<u8> },
    /// A datagram reaches the receiver from address `(path, sgen)`.
    ToReceiver { path: usize, sgen: u64, bytes: Vec<u8> },
    Action(usize),
    ReceiverTimer,
    ClientTimer(u64),
}

#[derive(Debug, PartialEq, Eq, PartialOrd, Ord)]
struct Timed {
    t: u64,
    seq: u64,
    ev: Ev,
}

pub struct Sim<'p> {
    pub plan: &'p LPlan,
    pub now: u64,
    ev_seq: u64,
    q: BinaryHeap<std::cmp::Reverse<Timed>>,
    pub world: World,
    pub env: Env,
    pub seam: SeamHandle,
    /// Mirror of what sits in the real uplink channel.
    chan_mirror: VecDeque<(u64, Vec<u8>)>,
    established_own: bool,
    /// Due uplink datagrams not yet pushed (fine mode).
    pending_uplink: VecDeque<(u64, Vec<u8>)>,
    client_rxq: VecDeque<Option<Vec<u8>>>,
    hk_deadline: u64,
    flush_deadline: u64,
    sighup_pending: bool,
    pub step_idx: u64,
    tie_counter: u64,
    log: LogHash,
    want_excerpt: bool,
    excerpt: VecDeque<String>,
    excerpt_cap: usize,
    pub stats: Stats,
    pub out: MonOut,
    start: u64,
    reload_text: Option<String>,
    last_reload_applied: Option<Vec<IpAddr>>,
    last_reload_analysis: Option<Result<Vec<IpAddr>, String>>,
    last_reload_snap: Option<ReloadSnap>,
    pub client_addr: SocketAddr,
}

pub fn path_ip(i: usize) -> IpAddr {
    IpAddr::V4(Ipv4Addr::new(127, 0, 1, (i + 1) as u8))
}

impl<'p> Sim<'p> {
    fn push_ev(&mut self, t: u64, ev: Ev) {
        self.ev_seq += 1;
        self.q.push(std::cmp::Reverse(Timed {
            t,
            seq: self.ev_seq,
            ev,
        }));
    }

    fn set_now(&mut self, t: u64) {
        if t > self.now {
            self.now = t;
        }
        core_hooks::set_clock(Some(self.now));
    }

    fn logline(&mut self, s: impl FnOnce() -> String) {
        if self.want_excerpt {
            if self.excerpt.len() >= self.excerpt_cap {
                self.excerpt.pop_front();
            }
            let l = s();
            self.excerpt.push_back(l);
        }
    }

    pub async fn new(plan: &'p LPlan, want_excerpt: bool) -> Result<Sim<'p>, String> {
        clear_thread_seams();
        let seam = SeamHandle::new();
        install_interceptors(&seam);
        // Seeded ids.
        let mut id_rng = Rng::new(hash3(plan.seed, 0x1D5, 0));
        core_hooks::set_byte_source(Some(Box::new(move |buf| id_rng.fill(buf))));
        let mut cid_rng = Rng::new(hash3(plan.seed, 0x1D6, 0));
        sh::set_conn_id_source(Some(Box::new(move || cid_rng.next_u64() | 1)));
        let start = plan.time_base_ms;
        core_hooks::set_clock(Some(start));

        let binder: Arc<dyn UplinkBinder> = Arc::new(SimBinder { seam: seam.clone() });
        let ips: Vec<IpAddr> = plan.initial_ips();
        // Fixed path numbering: 127.0.1.1..8 are paths 0..7, 127.0.2.1..3 are paths 8..10.
        seam.with(|s| {
            for i in 0..8 {
                s.path_for_ip(path_ip(i));
            }
            for i in 1..=3u8 {
                s.path_for_ip(IpAddr::V4(Ipv4Addr::new(127, 0, 2, i)));
            }
            for ip in &ips {
                s.path_for_ip(*ip);
            }
        });
        let mut conn_io: sh::ConnIoMap = HashMap::new();
        let mut host = plan.receiver_host.clone();
        let mut conns =
            create_connections_from_ips(&ips, &host, RECEIVER_PORT, &binder, &mut conn_io).await;
        if conns.is_empty() && host != "127.0.0.1" {
            // the name does not resolve here: fall back to the literal (counted)
            host = "127.0.0.1".to_string();
            conns = create_connections_from_ips(&ips, &host, RECEIVER_PORT, &binder, &mut conn_io).await;
        }
        if conns.is_empty() {
            return Err("no uplinks could be created".into());
        }
        let listener = UdpSocket::bind(SocketAddr::from((Ipv4Addr::LOCALHOST, 0)))
            .await
            .map_err(|e| format!("bind listener: {e}"))?;
        let (packet_tx, packet_rx) = sh::create_uplink_channel();
        let (instant_tx, instant_rx) =
            tokio::sync::mpsc::unbounded_channel::<(SocketAddr, SmallVec<u8, 64>)>();
        let cfg = &plan.cfg;
        let config = DynamicConfig::from_cli(
            if cfg.classic {
                srtla_core::SchedulingMode::Classic
            } else {
                srtla_core::SchedulingMode::Enhanced
            },
            !cfg.quality,
            !cfg.stall_guard,
            cfg.stall_min_in_flight,
            cfg.stall_ack_stale_ms,
            cfg.conn_timeout_ms,
        );
        let ips_file = format!(
            "/tmp/verif-ips-{}-{:?}.txt",
            std::process::id(),
            std::thread::current().id()
        )
        .replace(['(', ')'], "");
        let world = World {
            conns,
            conn_io,
            reg: SrtlaRegistrationManager::new(),
            packet_tx,
            packet_rx,
            instant_tx,
            instant_rx,
            listener: Arc::new(listener),
            recv_buf: vec![0u8; srtla_protocol::MTU],
            seq_tracker: sh::SequenceTracker::new(),
            last_selected_idx: None,
            last_client_addr: None,
            all_failed_at: None,
            pending_changes: None,
            weak_filter: srtla_core::selection::classifier::WeakLinkFilter::new(),
            cc: srtla_core::selection::link_cc::LinkCcController::new(),
            config,
            critical: srtla_core::priority::CriticalWindow::new(),
            stats: srtla_send::stats::SharedStats::new(),
            hub: srtla_send::subscriptions::SubscriptionHub::new(),
            binder,
            readers: HashMap::new(),
            ips_file,
            receiver_host: host,
            housekeeping_errors: 0,
            last_classification: None,
            last_cc: None,
        };
        let env = Env::new(plan);
        let mut sim = Sim {
            plan,
            now: start,
            ev_seq: 0,
            q: BinaryHeap::new(),
            world,
            env,
            seam,
            chan_mirror: VecDeque::new(),
            established_own: false,
            pending_uplink: VecDeque::new(),
            client_rxq: VecDeque::new(),
            hk_deadline: start + HK_PERIOD_MS,
            flush_deadline: start + FLUSH_PERIOD_MS,
            sighup_pending: false,
            step_idx: 0,
            tie_counter: 0,
            log: LogHash::default(),
            want_excerpt,
            excerpt: VecDeque::new(),
            excerpt_cap: if std::env::var("VERIF_EXCERPT_ALL").is_ok() { 2_000_000 } else { 400 },
            stats: Stats::default(),
            out: MonOut::default(),
            start,
            reload_text: None,
            last_reload_applied: None,
            last_reload_analysis: None,
            last_reload_snap: None,
            client_addr: "127.0.0.1:40000".parse().unwrap(),
        };
        for (i, a) in plan.actions.iter().enumerate() {
            sim.push_ev(start + a.t, Ev::Action(i));
        }
        sim.push_ev(start + 5, Ev::ReceiverTimer);
        Ok(sim)
    }

    /// The start-up sequence of `run_sender_with_config` before the loop:
    /// probing, reader tasks, one housekeeping pass.
    pub async fn startup(&mut self, monitors: &mut [Box<dyn Monitor>]) {
        for m in monitors.iter_mut() {
            m.on_start(&self.world, self.plan);
        }
        let w = &mut self.world;
        if self.plan.probing {
            let probes = w.reg.start_probing(&mut w.conns, srtla_core::utils::now_ms());
            for (idx, pkt) in probes {
                if let Some(conn) = w.conns.get(idx)
                    && let Some(io) = w.conn_io.get(&conn.conn_id)
                {
                    let _ = io.socket.send(&pkt).await;
                }
            }
        }
        sh::sync_readers(&w.conns, &w.conn_io, &mut w.readers, &w.packet_tx);
        // Initial housekeeping pass runs as a regular step so monitors see it.
        self.run_step(StepKind::Housekeeping, monitors, true).await;
    }

    fn ready_arms(&self) -> Vec<u8> {
        let mut arms = Vec::with_capacity(5);
        if !self.client_rxq.is_empty() {
            arms.push(1);
        }
        if !self.chan_mirror.is_empty() || !self.pending_uplink.is_empty() {
            arms.push(2);
        }
        if self.now >= self.hk_deadline {
            arms.push(3);
        }
        if self.now >= self.flush_deadline {
            arms.push(4);
        }
        if self.sighup_pending {
            arms.push(5);
        }
        arms
    }

    fn push_to_channel(&mut self, conn_id: u64, bytes: Vec<u8>) {
        let _ = self.world.packet_tx.send(sh::UplinkPacket {
            conn_id,
            bytes: SmallVec::from_slice_copy(&bytes),
        });
        self.chan_mirror.push_back((conn_id, bytes));
    }

    /// Move everything that is due into the ready queues; run environment-only
    /// events (receiver, client timers, plan actions) right away.
    fn pump_due(&mut self) {
        while let Some(std::cmp::Reverse(top)) = self.q.peek() {
            if top.t > self.now {
                break;
            }
            let std::cmp::Reverse(Timed { ev, .. }) = self.q.pop().unwrap();
            match ev {
                Ev::ClientEmit(bytes) => {
                    self.client_rxq.push_back(Some(bytes));
                }
                Ev::ToSender { path, sgen, bytes } => {
                    let (cur_gen, ip) = self.seam.with(|s| (s.path_gen[path], s.path_ip[path]));
                    if cur_gen != sgen {
                        self.stats.inc("net.dropped_old_socket");
                        continue;
                    }
                    // The reader task of the connection whose socket has this address.
                    // (An fd number may have been reused by another path's socket after
                    // this path's link was removed: the path then has no live socket.)
                    let fd = self.seam.with(|s| {
                        let fd = s.path_fd[path];
                        (s.fd_path.get(&fd) == Some(&path)).then_some(fd)
                    });
                    let _ = ip;
                    let conn_id = fd.and_then(|fd| {
                        let mut owners: Vec<u64> = self
                            .world
                            .conn_io
                            .iter()
                            .filter(|(_, io)| io.socket.as_raw_fd() == fd)
                            .map(|(id, _)| *id)
                            .collect();
                        owners.sort_unstable();
                        owners.first().copied()
                    });
                    let Some(conn_id) = conn_id else {
                        self.stats.inc("net.dropped_no_reader");
                        continue;
                    };
                    if bytes.is_empty() {
                        continue;
                    }
                    if self.plan.fine {
                        self.pending_uplink.push_back((conn_id, bytes));
                    } else {
                        self.push_to_channel(conn_id, bytes);
                    }
                }
                Ev::ToReceiver { path, sgen, bytes } => {
                    let replies = self.env.receiver_rx(self.now, path, sgen, &bytes);
                    self.route_from_receiver(replies);
                }
                Ev::Action(i) => self.do_action(i),
                Ev::ReceiverTimer => {
                    let replies = self.env.receiver_timer(self.now);
                    self.route_from_receiver(replies);
                    let t = self.now + self.plan.recv.timer_ms.max(1);
                    if t <= self.start + self.plan.horizon_ms + 2000 {
                        self.push_ev(t, Ev::ReceiverTimer);
                    }
                }
                Ev::ClientTimer(token) => {
                    let emits = self.env.client_timer(self.now, token);
                    for (dt, bytes) in emits {
                        self.push_ev(self.now + dt, Ev::ClientEmit(bytes));
                    }
                }
            }
        }
    }

    /// Hand receiver -> sender datagrams to the network model.
    fn route_from_receiver(&mut self, replies: Vec<(usize, u64, Vec<u8>)>) {
        for (path, sgen, bytes) in replies {
            let deliveries = self
                .env
                .net_transit(self.plan.seed, path, NetDir::Down, self.now, bytes, &mut self.stats);
            for (t, b) in deliveries {
                self.push_ev(t, Ev::ToSender { path, sgen, bytes: b });
            }
        }
    }

    fn do_action(&mut self, i: usize) {
        let a = self.plan.actions[i].clone();
        self.stats.inc(&format!("action.{}", a.kind.name()));
        let now = self.now;
        self.logline(|| format!("t={} ACTION {:?}", now, a.kind));
        match a.kind {
            Action::Burst { .. }
            | Action::Rexmit { .. }
            | Action::ClientControl { .. }
            | Action::ClientRaw { .. } => {
                let emits = self.env.client_action(self.now, &a.kind);
                for (dt, bytes) in emits {
                    self.push_ev(self.now + dt, Ev::ClientEmit(bytes));
                }
            }
            Action::ClientRecvError => self.client_rxq.push_back(None),
            Action::Blackhole { link, up, down, on } => {
                self.env.set_blackhole(link, up, down, on);
                if on {
                    self.stats.inc("fault.blackhole_on");
                }
            }
            Action::UplinkRecvError { link } => {
                // the reader task of the connection that owns this path's socket
                let fd = self.seam.with(|s| {
                    let fd = *s.path_fd.get(link)?;
                    (s.fd_path.get(&fd) == Some(&link)).then_some(fd)
                });
                let mut owners: Vec<u64> = fd
                    .map(|fd| self.world.conn_io.iter().filter(|(_, io)| io.socket.as_raw_fd() == fd).map(|(id, _)| *id).collect())
                    .unwrap_or_default();
                owners.sort_unstable();
                if let Some(conn_id) = owners.first().copied() {
                    self.stats.inc("fault.uplink_recv_error");
                    self.push_to_channel(conn_id, Vec::new());
                }
            }
            Action::DropReg2 { link, on } => {
                self.env.set_drop_reg2(link, on);
                if on {
                    self.stats.inc("fault.handshake_replies_lost_on");
                }
            }
            Action::LinkLoss { link, on } => {
                self.env.set_blackhole(link, true, true, on);
                if on {
                    self.stats.inc("fault.total_link_loss_on");
                }
            }
            Action::SendFault {
                link,
                ref kind,
                count,
                batch_only,
                send_only,
            } => {
                let call = if batch_only {
                    Some(UplinkCall::SendBatch)
                } else if send_only {
                    Some(UplinkCall::Send)
                } else {
                    None
                };
                self.seam.with(|s| {
                    if link < s.send_faults.len() {
                        s.send_faults[link].push(SendFault {
                            call,
                            kind: kind.clone(),
                            remaining: count,
                        });
                    }
                });
            }
            Action::ClientSockFault { ref kind, count } => {
                self.seam.with(|s| {
                    s.client_faults.push(ClientFault {
                        kind: kind.clone(),
                        remaining: count,
                    })
                });
            }
            Action::BindFail { link, on } => {
                self.seam.with(|s| {
                    if link < s.bind_fail.len() {
                        s.bind_fail[link] = on;
                    }
                });
            }
            Action::ReceiverRestart => {
                self.env.receiver_restart();
                self.stats.inc("fault.receiver_restart");
            }
            Action::ReceiverMode { ref mode } => self.env.set_receiver_mode(mode),
            Action::Inject { link, ref hex, delay } => {
                if let Some(bytes) = plan::unhex(hex) {
                    let sgen = self
                        .seam
                        .with(|s| s.path_gen.get(link).copied().unwrap_or(0));
                    self.stats.inc("fault.injected_datagram");
                    self.push_ev(
                        self.now + delay,
                        Ev::ToSender {
                            path: link,
                            sgen,
                            bytes,
                        },
                    );
                }
            }
            Action::Reload { ref text } => {
                self.reload_text = text.clone();
                match text {
                    Some(t) => {
                        let _ = std::fs::write(&self.world.ips_file, t);
                    }
                    None => {
                        let _ = std::fs::remove_file(&self.world.ips_file);
                    }
                }
                self.sighup_pending = true;
            }
            Action::Control { ref line } => {
                let _ = srtla_send::control::dispatch(
                    &self.world.config,
                    Some(&self.world.stats),
                    Some(&self.world.critical),
                    line,
                );
                self.stats.inc("fault.runtime_config_change");
            }
            Action::Critical { ms } => {
                self.world.critical.extend_to(self.now + ms);
            }
            Action::Stall { ms } => {
                self.stats.inc("fault.sender_stall");
                let t = self.now + ms;
                self.set_now(t);
            }
            Action::ClientRebind { port } => {
                self.client_addr = SocketAddr::new("127.0.0.1".parse().unwrap(), port);
                self.stats.inc("fault.client_rebind");
            }
            Action::SetWindow { link, window } => {
                if let Some(c) = self.world.conns.get_mut(link) {
                    c.window = window.clamp(1000, 60000);
                }
            }
            Action::SetGlue { link, weak, loss_degraded } => {
                if let Some(c) = self.world.conns.get_mut(link) {
                    c.weak = weak;
                    c.loss_degraded = loss_degraded;
                }
            }
        }
    }

    /// Execute one arm of the loop with the real functions, then feed the
    /// step's effects to the network and the monitors.
    async fn run_step(
        &mut self,
        kind: StepKind,
        monitors: &mut [Box<dyn Monitor>],
        initial: bool,
    ) {
        self.step_idx += 1;
        let idx = self.step_idx;
        core_hooks::set_clock(Some(self.now));
        let pre = views(&self.world);
        let pre_full: Option<Vec<SrtlaConnection>> = if monitors.iter().any(|m| m.wants_full_pre(&kind)) {
            Some(self.world.conns.iter().cloned().collect())
        } else {
            None
        };
        // "The session is established" is the simulator's own observation (a REG3 has been
        // processed by some uplink in an earlier step), not the implementation's flag.
        let has_connected_pre = self.established_own;
        let last_selected_pre = self.world.last_selected_idx;
        let client_addr_pre = self.world.last_client_addr;
        let critical_pre = self.world.critical.is_critical_now(self.now);
        let cfg = self.world.config.snapshot();
        let chan_before = self.chan_mirror.len();
        self.last_reload_applied = None;
        self.last_reload_analysis = None;
        self.last_reload_snap = None;
        let mut first_uplink: Option<(u64, Vec<u8>)> = None;

        // ---- main action of the arm ----
        {
            let w = &mut self.world;
            match &kind {
                StepKind::Client(dg) => {
                    let res = match dg {
                        Some(b) => {
                            let n = b.len().min(w.recv_buf.len());
                            w.recv_buf[..n].copy_from_slice(&b[..n]);
                            Ok((n, self.client_addr))
                        }
                        None => Err(std::io::Error::new(
                            std::io::ErrorKind::ConnectionRefused,
                            "injected recv error",
                        )),
                    };
                    sh::handle_srt_packet(
                        res,
                        &mut w.recv_buf,
                        &mut w.conns,
                        &w.conn_io,
                        &mut w.last_selected_idx,
                        &mut w.seq_tracker,
                        &mut w.last_client_addr,
                        w.reg.has_connected,
                        &cfg,
                        &w.critical,
                    )
                    .await;
                }
                StepKind::Uplink => {
                    if let Ok(packet) = w.packet_rx.try_recv() {
                        first_uplink = self.chan_mirror.pop_front();
                        sh::handle_uplink_packet(
                            packet,
                            &mut w.conns,
                            &w.conn_io,
                            &mut w.reg,
                            &w.instant_tx,
                            w.last_client_addr,
                            &w.listener,
                            &w.seq_tracker,
                            &cfg,
                        )
                        .await;
                    }
                }
                StepKind::Housekeeping => {
                    let classic = w.config.mode().is_classic();
                    if sh::handle_housekeeping(
                        &mut w.conns,
                        &mut w.conn_io,
                        &mut w.reg,
                        classic,
                        srtla_core::utils::now_ms(),
                        &mut w.all_failed_at,
                        &mut w.readers,
                        &w.packet_tx,
                    )
                    .await
                    .is_err()
                    {
                        w.housekeeping_errors += 1;
                    }
                    if !initial {
                        let classification = w.weak_filter.classify(&w.conns);
                        let link_cc_snapshots =
                            w.cc.tick_all(&w.conns, srtla_core::utils::now_ms());
                        for conn in w.conns.iter_mut() {
                            conn.weak = classification
                                .per_link
                                .iter()
                                .find(|e| e.conn_id == conn.conn_id)
                                .map(|e| e.weak)
                                .unwrap_or(false);
                            let cc_snap = link_cc_snapshots.get(&conn.conn_id);
                            conn.cc_backing_off = cc_snap
                                .map(|s| {
                                    s.state == srtla_core::selection::link_cc::CcState::BackingOff
                                })
                                .unwrap_or(false);
                            conn.cc_target_bps = cc_snap.map(|s| s.target_bps).unwrap_or(0);
                            conn.loss_degraded = cc_snap.map(|s| s.loss_degraded).unwrap_or(false);
                        }
                        w.stats.update(
                            &w.conns,
                            &w.config.snapshot(),
                            Some(&classification),
                            Some(&link_cc_snapshots),
                        );
                        let snap = w.stats.get();
                        if let Ok(value) = serde_json::to_value(&snap) {
                            w.hub.publish("stats", value).await;
                        }
                        w.last_classification = Some(classification);
                        w.last_cc = Some(link_cc_snapshots);
                        if let Some(changes) = w.pending_changes.take()
                            && let Some(new_ips) = changes.new_ips
                        {
                            let before: Vec<(SrtlaConnection, Option<i32>)> = w
                                .conns
                                .iter()
                                .map(|c| (c.clone(), w.conn_io.get(&c.conn_id).map(|i| i.socket.as_raw_fd())))
                                .collect();
                            let selected_before = w.last_selected_idx;
                            let fails_before = self.seam.with(|s| s.fired.get("fault.bind_failure"));
                            apply_connection_changes(
                                &mut w.conns,
                                &mut w.conn_io,
                                &new_ips,
                                &changes.receiver_host,
                                changes.receiver_port,
                                &mut w.last_selected_idx,
                                &mut w.seq_tracker,
                                &w.binder,
                            )
                            .await;
                            self.last_reload_applied = Some(new_ips.iter().copied().collect());
                            let mut io_keys_after: Vec<u64> = w.conn_io.keys().copied().collect();
                            io_keys_after.sort_unstable();
                            self.last_reload_snap = Some(ReloadSnap {
                                list: new_ips.iter().copied().collect(),
                                before,
                                after: w
                                    .conns
                                    .iter()
                                    .map(|c| (c.clone(), w.conn_io.get(&c.conn_id).map(|i| i.socket.as_raw_fd())))
                                    .collect(),
                                selected_before,
                                selected_after: w.last_selected_idx,
                                io_keys_after,
                                binds_failed: self.seam.with(|s| s.fired.get("fault.bind_failure")) - fails_before,
                            });
                            sh::sync_readers(&w.conns, &w.conn_io, &mut w.readers, &w.packet_tx);
                        }
                        sh::sync_readers(&w.conns, &w.conn_io, &mut w.readers, &w.packet_tx);
                    }
                }
                StepKind::Flush => {
                    sh::flush_all_batches(&mut w.conns, &w.conn_io).await;
                }
                StepKind::Sighup => {
                    match sh::analyze_ip_reload(&w.ips_file) {
                        sh::IpReload::Apply { ips, .. } => {
                            self.last_reload_analysis = Some(Ok(ips.iter().copied().collect()));
                            w.pending_changes = Some(PendingConnectionChanges {
                                new_ips: Some(ips),
                                receiver_host: w.receiver_host.clone(),
                                receiver_port: RECEIVER_PORT,
                            });
                        }
                        sh::IpReload::Refuse(reason) => {
                            self.last_reload_analysis = Some(Err(format!("{reason:?}")));
                        }
                    }
                }
            }
        }
        let mid = views(&self.world);
        let (wire_mid, client_mid) = self.seam.with(|s| (s.wire.len(), s.client.len()));

        // ---- trailing drain (every arm but the flush arm; not the start-up pass) ----
        let drains = !matches!(kind, StepKind::Flush) && !initial;
        if drains {
            let w = &mut self.world;
            sh::drain_packet_queue(
                &mut w.packet_rx,
                &mut w.conns,
                &w.conn_io,
                &mut w.reg,
                &w.instant_tx,
                w.last_client_addr,
                &w.listener,
                &w.seq_tracker,
                &cfg,
            )
            .await;
        }
        // What the drain consumed.
        let remaining = self.world.packet_rx.len();
        let mut uplink: Vec<(u64, Vec<u8>)> = Vec::new();
        if let Some(f) = first_uplink {
            uplink.push(f);
        }
        let _ = chan_before;
        while self.chan_mirror.len() > remaining {
            uplink.push(self.chan_mirror.pop_front().unwrap());
        }
        if uplink.iter().any(|(c, b)| {
            b.len() >= 2 && u16::from_be_bytes([b[0], b[1]]) == 0x9202 && self.world.conns.iter().any(|x| x.conn_id == *c)
        }) {
            self.established_own = true;
        }
        // Mirrored instant-forward task: drain the channel to the client socket.
        while let Ok((addr, pkt)) = self.world.instant_rx.try_recv() {
            self.seam.with(|s| {
                s.client.push(ClientOut {
                    t: srtla_core::utils::now_ms(),
                    via: "instant",
                    bytes: pkt.to_vec(),
                    result: Ok(pkt.len()),
                    target: addr,
                })
            });
        }
        // Let aborted reader tasks release their sockets.
        if matches!(kind, StepKind::Housekeeping) {
            tokio::task::yield_now().await;
        }

        let post = views(&self.world);
        let (wire, client_out) = self.seam.with(|s| {
            // Late path resolution for sockets created inside this step.
            for wsend in s.wire.iter_mut() {
                if wsend.path.is_none() {
                    wsend.path = s.fd_path.get(&wsend.fd).copied();
                }
            }
            (std::mem::take(&mut s.wire), std::mem::take(&mut s.client))
        });

        // ---- log ----
        self.log.u64(kind.code());
        self.log.u64(self.now);
        for wsend in &wire {
            self.log.u64(wsend.path.map(|p| p as u64 + 1).unwrap_or(0));
            self.log.u64(match wsend.result {
                Ok(n) => n as u64,
                Err(_) => u64::MAX,
            });
            for d in &wsend.offered {
                self.log.bytes(d);
            }
        }
        for c in &client_out {
            self.log.bytes(&c.bytes);
        }
        for v in &post {
            self.log.u64(v.conn_id);
            self.log.u64(v.window as u64);
            self.log.u64(v.in_flight as u64);
            self.log.u64(v.queued as u64);
            self.log.u64(v.connected as u64);
            self.log.u64(v.private.stall_gated as u64);
            self.log.u64(v.last_received.unwrap_or(0));
        }
        self.stats.inc(&format!("steps.{}", kind.name()));
        if self.want_excerpt {
            let summary: Vec<String> = post
                .iter()
                .map(|v| {
                    format!(
                        "[{} w={} if={} q={}{}{}]",
                        if v.connected { "C" } else { "-" },
                        v.window,
                        v.in_flight,
                        v.queued,
                        if v.private.stall_gated { " G" } else { "" },
                        if std::env::var("VERIF_REPLAY_FULL").is_ok() {
                            format!(" heard={:?} att={:?}", v.last_received.map(|t| self.now.saturating_sub(t)), self.now.saturating_sub(v.last_attempt_ms))
                        } else {
                            String::new()
                        }
                    )
                })
                .collect();
            let wdesc: Vec<String> = wire
                .iter()
                .map(|w| {
                    format!(
                        "p{}:{}x{}->{:?}",
                        w.path.map(|p| p as i64).unwrap_or(-1),
                        if w.call == UplinkCall::Send { "send" } else { "batch" },
                        w.offered.len(),
                        w.result
                    )
                })
                .collect();
            let now = self.now;
            let name = kind.name();
            let nu = uplink.len();
            let nc = client_out.len();
            self.logline(|| {
                format!(
                    "#{idx} t={now} {name} uplink_in={nu} wire=[{}] client_out={nc} links={}",
                    wdesc.join(","),
                    summary.join("")
                )
            });
        }

        // ---- monitors ----
        {
            let ctx = StepCtx {
                idx,
                now: self.now,
                kind: &kind,
                pre: &pre,
                mid: &mid,
                post: &post,
                uplink: &uplink,
                wire_mid,
                client_mid,
                wire: &wire,
                client_out: &client_out,
                world: &self.world,
                pre_full: pre_full.as_deref(),
                cfg,
                has_connected_pre,
                last_selected_pre,
                client_addr_pre,
                client_src: self.client_addr,
                critical_pre,
                env: &self.env,
                plan: self.plan,
                reload_applied: self.last_reload_applied.as_deref(),
                reload_analysis: self.last_reload_analysis.as_ref(),
                reload_text: if matches!(kind, StepKind::Sighup) {
                    Some(&self.reload_text)
                } else {
                    None
                },
                reload_snap: self.last_reload_snap.as_ref(),
            };
            for m in monitors.iter_mut() {
                m.on_step(&ctx, &mut self.out);
            }
            // reach measure shared by every engine-L check: the abstract link states visited
            if self.out.states.len() < 8192 {
                self.out.states.push(abstract_state(ctx.post, ctx.now, &ctx.world.reg));
            }
        }

        // ---- route effects into the environment ----
        for wsend in &wire {
            let Some(path) = wsend.path else {
                self.stats.inc("net.unresolved_socket");
                continue;
            };
            let accepted = match (wsend.call, wsend.result) {
                (UplinkCall::Send, Ok(_)) => 1,
                (UplinkCall::SendBatch, Ok(k)) => k.min(wsend.offered.len()),
                (_, Err(_)) => 0,
            };
            let sgen = self.seam.with(|s| {
                if s.path_fd[path] == wsend.fd {
                    s.path_gen[path]
                } else {
                    0
                }
            });
            for d in wsend.offered.iter().take(accepted) {
                let deliveries = self.env.net_transit(
                    self.plan.seed,
                    path,
                    NetDir::Up,
                    self.now,
                    d.clone(),
                    &mut self.stats,
                );
                for (t, b) in deliveries {
                    self.push_ev(t, Ev::ToReceiver { path, sgen, bytes: b });
                }
            }
        }
        for c in &client_out {
            if c.result.is_ok() {
                let emits = self.env.client_rx(self.now, &c.bytes);
                for (dt, bytes) in emits {
                    self.push_ev(self.now + dt, Ev::ClientEmit(bytes));
                }
            }
        }
    }

    pub async fn run(&mut self, monitors: &mut [Box<dyn Monitor>]) {
        self.startup(monitors).await;
        let end = self.start + self.plan.horizon_ms;
        let max_steps = self.plan.max_steps;
        loop {
            if !self.out.violations.is_empty() && self.out.violations.len() >= 32 {
                break;
            }
            self.pump_due();
            let arms = self.ready_arms();
            if arms.is_empty() {
                let next_ev = self.q.peek().map(|r| r.0.t).unwrap_or(u64::MAX);
                let t = next_ev.min(self.hk_deadline).min(self.flush_deadline);
                if t > end || t == u64::MAX {
                    break;
                }
                self.set_now(t);
                continue;
            }
            if self.step_idx >= max_steps {
                self.stats.inc("inconclusive.step_cap");
                break;
            }
            self.tie_counter += 1;
            let pick = if arms.len() == 1 {
                arms[0]
            } else {
                arms[(hash3(self.plan.seed, 0x71E, self.tie_counter) % arms.len() as u64) as usize]
            };
            if arms.len() > 1 {
                self.stats.inc("sched.tie_breaks");
            }
            match pick {
                1 => {
                    let dg = self.client_rxq.pop_front().unwrap();
                    self.run_step(StepKind::Client(dg), monitors, false).await;
                }
                2 => {
                    if self.chan_mirror.is_empty()
                        && let Some((cid, b)) = self.pending_uplink.pop_front()
                    {
                        self.push_to_channel(cid, b);
                    }
                    self.run_step(StepKind::Uplink, monitors, false).await;
                }
                3 => {
                    if self.now > self.hk_deadline + 50 {
                        self.stats.inc("fault.late_housekeeping_tick");
                    }
                    self.run_step(StepKind::Housekeeping, monitors, false).await;
                    // MissedTickBehavior::Delay
                    self.hk_deadline = self.now + HK_PERIOD_MS;
                }
                4 => {
                    // An idle flush tick (nothing queued anywhere, nothing written) is
                    // executed for real but not shown to the monitors: it has no effect.
                    let idle = self.world.conns.iter().all(|c| !c.has_queued_packets());
                    let mut light = false;
                    if idle {
                        core_hooks::set_clock(Some(self.now));
                        sh::flush_all_batches(&mut self.world.conns, &self.world.conn_io).await;
                        light = self.seam.with(|s| s.wire.is_empty())
                            && self.world.conns.iter().all(|c| !c.has_queued_packets());
                        if light {
                            self.stats.inc("steps.flush_idle");
                            self.log.u64(4);
                        }
                    }
                    if !light {
                        self.run_step(StepKind::Flush, monitors, false).await;
                    }
                    // MissedTickBehavior::Skip
                    let late = self.now - self.flush_deadline;
                    if late >= FLUSH_PERIOD_MS {
                        self.stats.add("fault.skipped_flush_ticks", late / FLUSH_PERIOD_MS);
                    }
                    self.flush_deadline += FLUSH_PERIOD_MS * (late / FLUSH_PERIOD_MS + 1);
                }
                _ => {
                    self.sighup_pending = false;
                    self.run_step(StepKind::Sighup, monitors, false).await;
                }
            }
        }
        for m in monitors.iter_mut() {
            m.on_finish(&self.world, &self.env, &mut self.out);
        }
    }

    pub fn finish(mut self) -> RunOutcome {
        let _ = std::fs::remove_file(&self.world.ips_file);
        for (_, r) in self.world.readers.drain() {
            r.handle.abort();
        }
        let fired = self.seam.with(|s| s.fired.clone());
        self.stats.merge(&fired);
        self.stats.merge(&self.env.stats);
        self.stats.merge(&self.out.stats);
        self.stats.add("steps.total", self.step_idx);
        let inconclusive = self.stats.get("inconclusive.step_cap") > 0;
        let mut states = std::mem::take(&mut self.out.states);
        states.sort_unstable();
        states.dedup();
        states.truncate(4096);
        clear_thread_seams();
        RunOutcome {
            violations: std::mem::take(&mut self.out.violations),
            log_hash: self.log.0,
            nontrivial: self.out.nontrivial,
            inconclusive,
            stats: self.stats,
            states,
            transitions: Vec::new(),
            excerpt: self.excerpt.into_iter().collect(),
            sim_time_ms: self.now - self.start,
        }
    }
}

/// Execute a plan with the given monitors on a fresh current-thread runtime.
pub fn execute(plan: &LPlan, mut monitors: Vec<Box<dyn Monitor>>, want_excerpt: bool) -> RunOutcome {
    let rt = tokio::runtime::Builder::new_current_thread()
        .enable_io()
        .enable_time()
        .build()
        .expect("tokio runtime");
    let outcome = rt.block_on(async {
        match Sim::new(plan, want_excerpt).await {
            Ok(mut sim) => {
                sim.run(&mut monitors).await;
                sim.finish()
            }
            Err(e) => panic!("simulator could not build its world: {e}"),
        }
    });
    drop(rt);
    clear_thread_seams();
    outcome
}

/// Abstract state of one link, hashed for the reach measure.
pub fn abstract_link_state(v: &LinkView, now: u64) -> u64 {
    let phase = match v.phase {
        LinkPhase::Registering => 0u64,
        LinkPhase::Warming { .. } => 1,
        LinkPhase::Live => 2,
        LinkPhase::Degraded => 3,
    };
    let timed_out = v
        .last_received
        .map(|lr| now.saturating_sub(lr) >= v.private.conn_timeout_ms)
        .unwrap_or(!v.connected) as u64;
    let wb = (v.window / 10_000) as u64;
    let ib = match v.in_flight {
        0 => 0u64,
        1..=31 => 1,
        32..=255 => 2,
        _ => 3,
    };
    phase
        | (v.connected as u64) << 2
        | timed_out << 3
        | (v.private.stall_gated as u64) << 4
        | ((v.private.stall_latched_since_ms != 0) as u64) << 5
        | (v.private.silence_pulled as u64) << 6
        | (v.weak as u64) << 7
        | (v.loss_degraded as u64) << 8
        | wb << 9
        | ib << 13
        | ((v.queued > 0) as u64) << 15
        | (v.fast_recovery as u64) << 16
}

pub fn abstract_state(views: &[LinkView], now: u64, reg: &SrtlaRegistrationManager) -> u64 {
    let mut h = LogHash::default();
    for v in views {
        h.u64(abstract_link_state(v, now));
    }
    h.u64(reg.has_connected as u64);
    h.u64(reg.pending_reg2_idx().map(|i| i as u64 + 1).unwrap_or(0));
    h.0
}
