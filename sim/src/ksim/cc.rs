//! C16 (per-link CC soft cap and loss latch) and C17 (weak-link classifier)
//! monitors on engine K.

use std::collections::HashMap;

use srtla_core::selection::classifier::WeakReason;
use srtla_core::selection::link_cc::CcState;

use super::{KCtx, KMonitor};
use crate::lsim::MonOut;

const MIN_T: u64 = 100_000;
const MAX_T: u64 = 200_000_000;

#[derive(Default)]
pub struct C16 {
    /// Since when the reported loss average has been above 0.55 at every tick.
    high_since: HashMap<u64, u64>,
    seeded: HashMap<u64, bool>,
    /// Honest loss accounting: last NAK total seen per link and when it last went up.
    nak_seen: HashMap<u64, i32>,
    nak_rose_at: HashMap<u64, u64>,
}

impl KMonitor for C16 {
    fn on_event(&mut self, ctx: &KCtx<'_>, out: &mut MonOut) {
        let Some(t) = &ctx.eff.tick else { return };
        // links that vanished are forgotten by the controller: forget them too
        self.high_since.retain(|id, _| t.cc.contains_key(id));
        self.seeded.retain(|id, _| t.cc.contains_key(id));
        self.nak_seen.retain(|id, _| t.cc.contains_key(id));
        self.nak_rose_at.retain(|id, _| t.cc.contains_key(id));
        for inp in &t.inputs {
            let Some(cur) = t.cc.get(&inp.conn_id) else {
                out.violate("C16.snapshot", "", ctx.idx, format!("no CC snapshot for link {:x}", inp.conn_id));
                continue;
            };
            let prev = t.cc_prev.get(&inp.conn_id);
            out.stats.inc("c16.link_ticks");
            // honest loss: the counter only counts upwards; a restart (reconnect) is not loss
            match self.nak_seen.get(&inp.conn_id) {
                Some(prev_n) if inp.nak_total > *prev_n => {
                    self.nak_rose_at.insert(inp.conn_id, ctx.now);
                }
                Some(prev_n) if inp.nak_total < *prev_n => out.probe("c16.nak_counter_restarted"),
                _ => {}
            }
            self.nak_seen.insert(inp.conn_id, inp.nak_total);
            let tgt = cur.target_bps;
            if !(MIN_T..=MAX_T).contains(&tgt) {
                out.violate("C16.bounds", "", ctx.idx, format!("target {tgt} outside [100 kbit/s, 200 Mbit/s]"));
            }
            let has_rtt = cur.rtt_ewma_ms.is_finite() && cur.rtt_ewma_ms > 0.0;
            if !has_rtt {
                out.probe("c16.bootstrap_tick");
                if tgt != MIN_T || cur.state != CcState::Bootstrap {
                    out.violate("C16.bootstrap", "", ctx.idx, format!("no RTT sample yet but target {tgt} state {:?}", cur.state));
                }
                continue;
            }
            out.nontrivial = true;
            let observed = inp.bitrate_bps.max(0.0) as u64;
            let prev_t = prev.map(|p| p.target_bps);
            let was_seeded = self.seeded.get(&inp.conn_id).copied().unwrap_or(false) && prev.is_some();
            let baseline = prev_t.unwrap_or(MIN_T).max(1_000_000) as f64;
            let sane = (observed as f64).min(4.0 * baseline);
            if observed as f64 > 4.0 * baseline {
                out.probe("c16.outlier_burst_clamped");
            }
            if let (true, Some(p)) = (was_seeded, prev) {
                let pt = p.target_bps as f64;
                if tgt < p.target_bps {
                    // a decrease: loss back-off or one-shot drain entry
                    let backoff_ok = cur.state == CcState::BackingOff
                        && (tgt as f64) >= (pt * 0.85).floor().max(MIN_T as f64) - 1.0
                        && (tgt as f64) >= sane.min(pt).floor().max(0.0) - 1.0;
                    let drain_ok = cur.state == CcState::Drain
                        && p.state != CcState::Drain
                        && ((tgt as f64) - (pt * 0.75).floor().max(MIN_T as f64)).abs() <= 1.0;
                    let loss_seen = self.nak_rose_at.get(&inp.conn_id).is_some_and(|t| ctx.now.saturating_sub(*t) <= 1000);
                    if backoff_ok && !loss_seen {
                        out.violate(
                            "C16.decrease",
                            "backoff_without_loss",
                            ctx.idx,
                            format!(
                                "target {} -> {tgt} by a loss back-off although the link's loss counter has not risen in the last second (last rise {:?} ms ago)",
                                p.target_bps,
                                self.nak_rose_at.get(&inp.conn_id).map(|t| ctx.now - t)
                            ),
                        );
                    } else if backoff_ok {
                        out.probe("c16.backoff_decrease");
                        if (tgt as f64) > (pt * 0.85).floor() + 1.0 {
                            out.probe("c16.backoff_floored_at_delivered_rate");
                        }
                    } else if drain_ok {
                        out.probe("c16.drain_entry");
                    } else {
                        out.violate(
                            "C16.decrease",
                            match cur.state {
                                CcState::BackingOff => "backoff_too_deep",
                                CcState::Drain => "drain_not_one_shot",
                                _ => "outside_backoff_or_drain",
                            },
                            ctx.idx,
                            format!("target {} -> {tgt} in state {:?} (previous state {:?}, observed {observed} bit/s)", p.target_bps, cur.state, p.state),
                        );
                    }
                } else if tgt > p.target_bps {
                    out.probe("c16.increase");
                    let limit = (pt * 1.06).floor() + 1.0;
                    if (tgt as f64) > limit {
                        out.violate(
                            "C16.growth",
                            if p.target_bps == MIN_T { "reseed_at_floor" } else { "more_than_6_percent" },
                            ctx.idx,
                            format!("target {} -> {tgt} in one tick (> 6 %), state {:?}, observed {observed} bit/s", p.target_bps, cur.state),
                        );
                    } else if (tgt as f64) > 2.0 * sane + 1.0 {
                        out.violate(
                            "C16.growth",
                            "beyond_twice_measured",
                            ctx.idx,
                            format!("target grew {} -> {tgt}, beyond twice the measured rate {sane}", p.target_bps),
                        );
                    }
                    if cur.state == CcState::BackingOff {
                        out.violate("C16.decrease", "backoff_raised_cap", ctx.idx, format!("a loss back-off raised the cap {} -> {tgt}", p.target_bps));
                    }
                }
            } else {
                // first seeding from measured throughput (floored at the initial estimate)
                out.probe("c16.seeded");
                let seed_max = sane.max(1_000_000.0).min(MAX_T as f64);
                if (tgt as f64) > seed_max * 1.06 + 1.0 {
                    out.violate("C16.growth", "seed_too_high", ctx.idx, format!("seeded at {tgt} from observed {observed} bit/s"));
                }
                self.seeded.insert(inp.conn_id, true);
            }
            // ---- loss latch on the reported loss average ----
            let avg = cur.loss_ewma;
            if !(avg.is_finite() && (0.0..=1.0 + 1e-9).contains(&avg)) {
                out.violate("C16.loss_average", "", ctx.idx, format!("loss average {avg}"));
            }
            let was = prev.map(|p| p.loss_degraded).unwrap_or(false);
            let high_before = self.high_since.get(&inp.conn_id).copied();
            if avg > 0.55 {
                self.high_since.entry(inp.conn_id).or_insert(ctx.now);
                out.probe("c16.loss_average_high");
            } else {
                self.high_since.remove(&inp.conn_id);
            }
            if !was && cur.loss_degraded {
                out.probe("c16.loss_latch_set");
                let ok = avg > 0.55 && high_before.is_some_and(|h| ctx.now.saturating_sub(h) >= 4000);
                if !ok {
                    out.violate(
                        "C16.loss_latch",
                        "set_early",
                        ctx.idx,
                        format!("loss-degraded latched with loss average {avg:.3}, above 0.55 for {:?} ms", high_before.map(|h| ctx.now - h)),
                    );
                }
            }
            if was && !cur.loss_degraded && prev.is_some() {
                out.probe("c16.loss_latch_cleared");
                if !(avg < 0.25) {
                    out.violate("C16.loss_latch", "cleared_early", ctx.idx, format!("loss-degraded cleared with loss average {avg:.3} (needs < 0.25)"));
                }
            }
        }
    }
}

// ---------------------------------------------------------------- C17

#[derive(Clone, Debug, Default)]
struct Hist {
    prev_signal: bool,
    prev_weak: bool,
    prev_share_weak: bool,
    share_run: u32,
    /// Forced not-weak ticks still owed after a 15-tick run.
    probation_left: u32,
}

#[derive(Default)]
pub struct C17 {
    h: HashMap<u64, Hist>,
}

impl KMonitor for C17 {
    fn on_event(&mut self, ctx: &KCtx<'_>, out: &mut MonOut) {
        let Some(t) = &ctx.eff.tick else { return };
        let cls = &t.classification;
        let total: f64 = t.inputs.iter().filter(|i| i.connected).map(|i| i.bitrate_bps.max(0.0)).sum();
        let n_conn = t.inputs.iter().filter(|i| i.connected).count() as u64;
        let bypass = total < 100_000.0 || n_conn == 0;
        out.stats.inc("c17.ticks");
        if bypass {
            out.probe("c17.bypass_tick");
            self.h.clear();
        }
        // links that left the set lose their history
        self.h.retain(|id, _| t.inputs.iter().any(|i| i.conn_id == *id && i.connected));
        for inp in &t.inputs {
            let Some(v) = cls.per_link.iter().find(|e| e.conn_id == inp.conn_id) else {
                out.violate("C17.verdict", "missing", ctx.idx, format!("no verdict for link {:x}", inp.conn_id));
                continue;
            };
            if v.weak && (!inp.connected || bypass) {
                out.violate(
                    "C17.weak_when_unjudgeable",
                    if !inp.connected { "disconnected" } else { "below_floor" },
                    ctx.idx,
                    format!("link {:x} reported weak ({:?}) while connected={} and total throughput {total:.0} bit/s", inp.conn_id, v.reason, inp.connected),
                );
            }
            if !inp.connected || bypass {
                continue;
            }
            out.nontrivial = true;
            let h = self.h.entry(inp.conn_id).or_default();
            let rtt_ms = inp.srtt as u32;
            let signal = rtt_ms > cls.selected_delay_ms || inp.queue_building;
            if signal {
                out.probe("c17.delay_signal");
            }
            let delay_weak = v.weak && matches!(v.reason, WeakReason::HighRtt | WeakReason::QueueBuilding);
            let share_weak = v.weak && matches!(v.reason, WeakReason::LowShare | WeakReason::NoTraffic);
            if delay_weak {
                out.probe("c17.delay_weak");
                if !(signal && h.prev_signal) {
                    out.violate(
                        "C17.delay_blip",
                        "",
                        ctx.idx,
                        format!("link {:x} marked weak for {:?} but the delay signal held on this tick={} and the previous tick={}", inp.conn_id, v.reason, signal, h.prev_signal),
                    );
                }
            }
            let own_share = if total > 0.0 { ((inp.bitrate_bps.max(0.0) * 1000.0) / total).floor() as u64 } else { 0 };
            // probation owed?
            if h.probation_left > 0 {
                out.probe("c17.probation_tick");
                if v.weak {
                    out.violate(
                        "C17.probation",
                        "not_honoured",
                        ctx.idx,
                        format!("link {:x} is owed {} forced not-weak tick(s) after 15 share-weak verdicts but was reported weak ({:?})", inp.conn_id, h.probation_left, v.reason),
                    );
                }
                h.probation_left -= 1;
            } else {
                // entering / leaving thresholds
                if share_weak && matches!(v.reason, WeakReason::LowShare) && !h.prev_weak {
                    out.probe("c17.enter_low_share");
                    if own_share >= 250 / n_conn {
                        out.violate(
                            "C17.threshold",
                            "entered_above_quarter",
                            ctx.idx,
                            format!("link {:x} entered low-share weakness with share {own_share} permille (quarter of fair share = {})", inp.conn_id, 250 / n_conn),
                        );
                    }
                }
                if !v.weak && h.prev_share_weak && inp.bitrate_bps > 0.0 {
                    out.probe("c17.leave_low_share");
                    if own_share + 1 < 750 / n_conn {
                        out.violate(
                            "C17.threshold",
                            "left_below_three_quarters",
                            ctx.idx,
                            format!("link {:x} left share weakness with share {own_share} permille (three quarters of fair share = {})", inp.conn_id, 750 / n_conn),
                        );
                    }
                }
            }
            if share_weak {
                h.share_run += 1;
                if h.share_run > 15 {
                    out.violate(
                        "C17.probation",
                        "run_too_long",
                        ctx.idx,
                        format!("link {:x}: {} consecutive share-weak verdicts without a probation", inp.conn_id, h.share_run),
                    );
                    h.share_run = 0;
                } else if h.share_run == 15 {
                    out.probe("c17.probation_armed");
                    h.probation_left = 3;
                    h.share_run = 0;
                }
            } else {
                h.share_run = 0;
            }
            h.prev_signal = signal;
            h.prev_weak = v.weak;
            h.prev_share_weak = share_weak;
        }
    }
}
