//! Known-findings file (`/verif/known_findings.json`), read-only at run time.

use std::sync::OnceLock;

use serde::Deserialize;

use crate::common::Violation;

#[derive(Clone, Debug, Deserialize)]
pub struct Finding {
    pub property: String,
    /// "known" suppresses (prints KNOWN-FINDING, exit 0); "fixed" suppresses nothing.
    pub status: String,
    /// `monitor:label` of the violation this entry describes.
    pub signature: String,
    pub what: String,
    #[serde(default)]
    pub commit: Option<String>,
}

#[derive(Clone, Debug, Deserialize, Default)]
struct File {
    #[serde(default)]
    findings: Vec<Finding>,
}

static FINDINGS: OnceLock<Vec<Finding>> = OnceLock::new();

pub fn path() -> String {
    std::env::var("VERIF_FINDINGS").unwrap_or_else(|_| "/verif/known_findings.json".to_string())
}

pub fn load() -> &'static [Finding] {
    FINDINGS.get_or_init(|| match std::fs::read_to_string(path()) {
        Ok(text) => match serde_json::from_str::<File>(&text) {
            Ok(f) => f.findings,
            Err(e) => {
                eprintln!("HARNESS-ERROR: cannot parse {}: {e}", path());
                std::process::exit(2);
            }
        },
        Err(_) => Vec::new(),
    })
}

/// The `known` entry matching this violation of `property`, if any.
pub fn known_for(property: &str, v: &Violation) -> Option<&'static Finding> {
    let sig = v.signature();
    load()
        .iter()
        .find(|f| f.status == "known" && f.property == property && f.signature == sig)
}

pub fn is_known(property: &str, monitor: &str, label: &str) -> bool {
    let sig = if label.is_empty() {
        monitor.to_string()
    } else {
        format!("{monitor}:{label}")
    };
    load()
        .iter()
        .any(|f| f.status == "known" && f.property == property && f.signature == sig)
}
