//! C15 — wire tap: every datagram crossing the simulated network is decoded by
//! the real decoders and by the reference codec; every frame the sender emits on
//! the out-of-band path is checked against its exact layout.

use srtla_send::net::verif_hooks::UplinkCall;

use super::refcodec as rc;
use super::{T_KEEPALIVE, T_REG1, T_REG2, ptype};
use crate::lsim::{MonOut, Monitor, StepCtx, find_view};

const M: &str = "C15";

#[derive(Default)]
pub struct C15 {
    seen_types: std::collections::HashSet<u16>,
    seen_lens: std::collections::HashSet<usize>,
}

impl C15 {
    pub fn new() -> Self {
        Self::default()
    }
    fn tap(&mut self, b: &[u8], dir: &str, ctx: &StepCtx<'_>, out: &mut MonOut) {
        out.stats.inc("c15.datagrams_tapped");
        if let Some(t) = ptype(b) {
            if self.seen_types.insert(t) {
                out.stats.inc("c15.distinct_type_codes_in_run");
            }
        }
        if self.seen_lens.insert(b.len()) {
            out.stats.inc("c15.distinct_lengths_in_run");
        }
        if b.len() <= 24 {
            out.probe("c15.short_datagram");
        }
        if ptype(b) == Some(0x8003) {
            out.probe("c15.nak_decoded");
        }
        if let Some(d) = rc::differential(b) {
            out.violate(
                &format!("{M}.decode"),
                d.split(' ').next().unwrap_or(""),
                ctx.idx,
                format!("{dir} datagram of {} bytes (type {:x?}): real decoder and reference codec disagree: {d}", b.len(), ptype(b)),
            );
        }
    }
}

impl Monitor for C15 {
    fn on_step(&mut self, ctx: &StepCtx<'_>, out: &mut MonOut) {
        for (_, b) in ctx.uplink {
            self.tap(b, "inbound", ctx, out);
        }
        for w in ctx.wire {
            for d in &w.offered {
                self.tap(d, "outbound", ctx, out);
            }
            if w.call != UplinkCall::Send {
                continue;
            }
            let d = &w.offered[0];
            match ptype(d) {
                Some(T_REG1) | Some(T_REG2) => {
                    out.probe("c15.reg_frame");
                    if d.len() != 258 {
                        out.violate(&format!("{M}.layout"), "reg_len", ctx.idx, format!("REG frame of {} bytes", d.len()));
                    }
                }
                Some(T_KEEPALIVE) => {
                    out.probe("c15.keepalive_frame");
                    let v = ctx.pre.iter().chain(ctx.mid.iter()).find(|v| v.fd == Some(w.fd));
                    let info = rc::keepalive_info(d);
                    let ok = d.len() == 38
                        && rc::keepalive_ts(d) == Some(ctx.now)
                        && info.is_some()
                        && v.is_none_or(|v| {
                            let i = info.unwrap();
                            i.conn_id == v.conn_id as u32 && i.window == v.window && i.in_flight == v.in_flight
                        });
                    if !ok {
                        out.violate(
                            &format!("{M}.layout"),
                            "keepalive",
                            ctx.idx,
                            format!("keepalive frame of {} bytes does not decode back to the values it was built from: ts {:?} (now {}), info {:?}", d.len(), rc::keepalive_ts(d), ctx.now, info),
                        );
                    }
                }
                _ => {}
            }
        }
        let _ = find_view;
    }
}
