//! C05 — a NAK is charged once, and only to a link that carried the packet.

use std::collections::HashMap;

use super::setmodel::{SetEv, SetModel};
use super::{T_SRT_NAK, Truth, data_seq, ptype};
use crate::lsim::{MonOut, Monitor, StepCtx, StepKind, find_view};

const M: &str = "C05";
const SLOTS: u32 = 16384;
const MAX_AGE_MS: u64 = 5000;

#[derive(Default)]
pub struct C05 {
    truth: Truth,
    model: SetModel,
    /// slot -> (seq, link that carried the unique copy, queue time)
    owner: HashMap<u32, (u32, u64, u64)>,
}

impl C05 {
    pub fn new() -> Self {
        Self::default()
    }
}

impl Monitor for C05 {
    fn on_step(&mut self, ctx: &StepCtx<'_>, out: &mut MonOut) {
        // Ownership: the unique copy of a data packet, recorded when it is queued.
        if let StepKind::Client(Some(bytes)) = ctx.kind
            && let Some(seq) = data_seq(bytes)
        {
            let placed_any = ctx.pre.iter().any(|p| {
                find_view(ctx.mid, p.conn_id).is_some_and(|m| {
                    m.queued != p.queued || ctx.wire[..ctx.wire_mid].iter().any(|w| Some(w.fd) == p.fd)
                })
            });
            if placed_any
                && let Some(sel) = ctx.world.last_selected_idx.and_then(|i| ctx.mid.get(i))
            {
                let slot = seq % SLOTS;
                if let Some((old, _, _)) = self.owner.get(&slot)
                    && *old != seq
                {
                    out.probe("c05.collision_overwrite");
                }
                self.owner.insert(slot, (seq, sel.conn_id, ctx.now));
            }
        }
        self.truth.update(ctx);
        for gone in &self.truth.removed_now {
            self.owner.retain(|_, (_, c, _)| c != gone);
            out.probe("c05.link_removed");
        }
        let world = ctx.world;
        let real_holds = |conn: u64, seq: i32| -> bool {
            world
                .conns
                .iter()
                .find(|c| c.conn_id == conn)
                .is_some_and(|c| c.packet_log.contains_key(&seq))
        };
        let evs = self.model.apply_step(
            ctx,
            &self.truth.torn_down_now.clone(),
            &self.truth.removed_now.clone(),
            &real_holds,
        );
        // Only judge steps that consist of exactly one NAK datagram.
        let nak_step = matches!(ctx.kind, StepKind::Uplink)
            && ctx.uplink.len() == 1
            && ptype(&ctx.uplink[0].1) == Some(T_SRT_NAK);
        if !nak_step {
            // The set model is never resynchronised with the implementation's log: "had that
            // packet outstanding" means handed to the socket since the link's last reset, by
            // the monitor's own bookkeeping.
            return;
        }
        let mut charges: HashMap<u64, u32> = HashMap::new();
        for e in &evs {
            let SetEv::Nak { seq, holders, removed_from } = e else {
                continue;
            };
            out.probe("c05.nak_entry");
            let slot = seq % SLOTS;
            let remembered = self.owner.get(&slot).copied().and_then(|(s, c, t)| {
                let age = ctx.now.saturating_sub(t);
                if age == MAX_AGE_MS || age == MAX_AGE_MS + 1 {
                    out.probe("c05.expiry_boundary");
                }
                (s == *seq && age <= MAX_AGE_MS && ctx.post.iter().any(|v| v.conn_id == c)).then_some(c)
            });
            if holders.len() > 1 {
                out.probe("c05.two_holders");
            }
            match remembered {
                Some(o) => {
                    out.probe("c05.tracked");
                    let expect = holders.contains(&o).then_some(o);
                    if *removed_from != expect {
                        let label = match (removed_from, expect) {
                            (Some(_), _) => "charged_non_owner",
                            (None, Some(_)) => "owner_not_charged",
                            _ => "other",
                        };
                        out.violate(
                            &format!("{M}.attribution"),
                            label,
                            ctx.idx,
                            format!(
                                "NAK {seq}: the unique copy was carried by link {o:x} (remembered), holders {holders:x?}, but the link charged is {removed_from:x?}"
                            ),
                        );
                    }
                }
                None => {
                    out.probe("c05.untracked");
                    if holders.len() > 1 {
                        out.probe("c05.untracked_two_holders");
                        if holders.iter().any(|h| find_view(ctx.pre, *h).is_some_and(|v| v.window == 1000)) {
                            out.probe("c05.untracked_two_holders_one_at_floor");
                        }
                    }
                    if let Some(r) = removed_from
                        && !holders.contains(r)
                    {
                        out.violate(
                            &format!("{M}.attribution"),
                            "charged_non_holder",
                            ctx.idx,
                            format!("NAK {seq}: link {r:x} was charged but did not hold the packet"),
                        );
                    }
                    if holders.is_empty() {
                        out.probe("c05.unknown_nak");
                    }
                }
            }
            if let Some(r) = removed_from {
                *charges.entry(*r).or_insert(0) += 1;
            }
        }
        // Exact charge arithmetic, link by link, over the whole datagram.
        for pre in ctx.pre {
            let Some(post) = find_view(ctx.post, pre.conn_id) else {
                continue;
            };
            let k = charges.get(&pre.conn_id).copied().unwrap_or(0);
            let mut w = pre.window;
            for _ in 0..k {
                w = (w - 100).max(1000);
            }
            let ok = post.nak_count == pre.nak_count + k as i32
                && post.window == w
                && post.in_flight == pre.in_flight - k as i32;
            if !ok {
                out.violate(
                    &format!("{M}.charge"),
                    if k == 0 { "changed_without_charge" } else { "wrong_amount" },
                    ctx.idx,
                    format!(
                        "link {:x}: {} NAK(s) charged; loss count {} -> {}, window {} -> {} (expected {}), in-flight {} -> {}",
                        pre.conn_id, k, pre.nak_count, post.nak_count, pre.window, post.window, w, pre.in_flight, post.in_flight
                    ),
                );
            }
            if k > 0 {
                out.probe("c05.charged");
            }
        }
        let total: u32 = charges.values().sum();
        if total as usize > evs.len() {
            out.violate(&format!("{M}.charge"), "more_than_listed", ctx.idx, "more charges than NAK entries".into());
        }
    }
}
