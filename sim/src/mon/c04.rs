//! C04 — stream data is only ever routed onto eligible uplinks.

use srtla_core::selection::select_connection_idx;
use srtla_send::net::verif_hooks::UplinkCall;

use super::{T_KEEPALIVE, T_REG1, T_REG2, Truth, data_seq, is_rexmit, ptype};
use crate::lsim::{MonOut, Monitor, StepCtx, StepKind, abstract_state, find_view};

const M: &str = "C04";

#[derive(Default)]
pub struct C04 {
    truth: Truth,
}

impl C04 {
    pub fn new() -> Self {
        Self::default()
    }
}

impl Monitor for C04 {
    fn wants_full_pre(&self, kind: &StepKind) -> bool {
        matches!(kind, StepKind::Client(Some(_)))
    }

    fn on_step(&mut self, ctx: &StepCtx<'_>, out: &mut MonOut) {
        if let StepKind::Client(Some(bytes)) = ctx.kind
            && !bytes.is_empty()
            && ctx.has_connected_pre
        {
            // Where did the unique copy go?
            let placed: Vec<u64> = ctx
                .pre
                .iter()
                .filter(|p| {
                    find_view(ctx.mid, p.conn_id).is_some_and(|m| {
                        let drained: i64 = ctx.wire[..ctx.wire_mid]
                            .iter()
                            .enumerate()
                            .filter(|(k, w)| {
                                w.call == UplinkCall::SendBatch
                                    && Some(w.fd) == p.fd
                                    && (*k == 0 || ctx.wire[*k - 1].fd != w.fd || ctx.wire[*k - 1].call != UplinkCall::SendBatch)
                            })
                            .map(|(_, w)| w.offered.len() as i64)
                            .sum();
                        m.queued as i64 + drained - p.queued as i64 == 1
                    })
                })
                .map(|p| p.conn_id)
                .collect();
            let selected = ctx.world.last_selected_idx.and_then(|i| ctx.mid.get(i));
            if let Some(sel) = selected
                && placed.contains(&sel.conn_id)
                && let Some(pre) = find_view(ctx.pre, sel.conn_id)
            {
                out.probe("c04.routed");
                let t = self.truth.links.get(&sel.conn_id);
                let registered = t.is_some_and(|l| l.registered) && pre.connected;
                let silent = self.truth.silent_for(sel.conn_id, ctx.now);
                let heard = silent.is_some_and(|s| s < ctx.cfg.conn_timeout_ms);
                let gated = sel.private.stall_gated;
                let reason = if !registered {
                    Some("unregistered")
                } else if !heard {
                    Some("timed_out")
                } else if gated {
                    Some("stall_gated")
                } else {
                    None
                };
                let override_eligible = data_seq(bytes).is_some() && (ctx.critical_pre || is_rexmit(bytes));
                if override_eligible {
                    out.probe("c04.must_land_packet");
                }
                // Are there tempting ineligible links around?
                if ctx.pre.iter().any(|p| {
                    p.connected
                        && (p.private.stall_gated
                            || self
                                .truth
                                .silent_for(p.conn_id, ctx.now)
                                .is_none_or(|s| s >= ctx.cfg.conn_timeout_ms))
                }) {
                    out.probe("c04.ineligible_link_present");
                }
                if let Some(reason) = reason {
                    // Label the call site: what would the plain scheduler have chosen?
                    let mut site = "selector";
                    if override_eligible && let Some(full) = ctx.pre_full {
                        let mut clone: Vec<_> = full.to_vec();
                        let normal = select_connection_idx(&mut clone, ctx.last_selected_pre, ctx.now, &ctx.cfg);
                        if normal != ctx.world.last_selected_idx {
                            site = "priority_override";
                        }
                    }
                    out.violate(
                        &format!("{M}.ineligible_route"),
                        &format!("{site}/{reason}"),
                        ctx.idx,
                        format!(
                            "{} datagram ({} bytes{}{}) queued on link {:x}: registered={} silent_ms={:?} timeout={} stall_gated={} [connected={} phase={:?} established={} last_received={:?}]",
                            if data_seq(bytes).is_some() { "data" } else { "control" },
                            bytes.len(),
                            if is_rexmit(bytes) { ", R flag" } else { "" },
                            if ctx.critical_pre { ", critical window open" } else { "" },
                            sel.conn_id,
                            registered,
                            silent,
                            ctx.cfg.conn_timeout_ms,
                            gated,
                            pre.connected,
                            pre.phase,
                            pre.established_ms,
                            pre.last_received
                        ),
                    );
                }
            }
        }
        // On the wire: once the session is established, a batch of stream datagrams leaves only an
        // uplink that has completed registration since its last reset (a reset discards what was
        // queued; what the registration link carries is keepalives and handshake packets).
        if ctx.has_connected_pre {
            for (k, w) in ctx.wire.iter().enumerate() {
                if w.call != UplinkCall::SendBatch || w.offered.is_empty() {
                    continue;
                }
                // the state that counts is the one the flush found: after the main action for
                // sends of the trailing part, before it otherwise
                let views = if k < ctx.wire_mid { ctx.pre } else { ctx.mid };
                let Some(v) = views.iter().find(|v| v.fd == Some(w.fd)) else { continue };
                let registered = self.truth.links.get(&v.conn_id).is_some_and(|l| l.registered) && v.connected;
                // (a link that has never been registered may still flush what the pre-registration
                // path queued on it before another link's REG3 established the session)
                // (nor is a link judged that the receiver rejected with REG_ERR: nothing was reset,
                // the residue of its queue - routed while it was eligible - still goes out)
                let was_reset = self.truth.links.get(&v.conn_id).is_some_and(|l| l.reset_since_registered);
                out.probe("c04.batch_on_the_wire");
                if !registered && was_reset && !matches!(ctx.kind, StepKind::Client(_)) {
                    out.violate(
                        &format!("{M}.wire"),
                        "stream_data_on_unregistered_uplink",
                        ctx.idx,
                        format!(
                            "a batch of {} stream datagram(s) (first: {} bytes, sequence {:?}) left link {:x} in a {} step although the link was reset and has not completed registration since (connected={}, phase {:?})",
                            w.offered.len(),
                            w.offered[0].len(),
                            data_seq(&w.offered[0]),
                            v.conn_id,
                            ctx.kind.name(),
                            v.connected,
                            v.phase
                        ),
                    );
                }
            }
        }
        // Out-of-band sends carry only keepalives and handshake packets.
        for w in ctx.wire {
            if w.call == UplinkCall::Send {
                let t = ptype(&w.offered[0]);
                if !matches!(t, Some(T_KEEPALIVE) | Some(T_REG1) | Some(T_REG2)) {
                    out.violate(
                        &format!("{M}.out_of_band"),
                        "",
                        ctx.idx,
                        format!("unexpected datagram type {t:x?} on the single-send path"),
                    );
                }
            }
        }
        self.truth.update(ctx);
        if ctx.idx % 16 == 0 {
            out.states.push(abstract_state(ctx.post, ctx.now, &ctx.world.reg));
        }
    }
}
