//! Environment models for engine L: per-uplink network, reference SRTLA
//! receiver (written from the BELABOX `srtla_rec` behaviour) with a small SRT
//! receiver behind it, and the SRT client. All of this is *environment*, never
//! oracle; its parameters are randomised per run.

use std::collections::{BTreeMap, BTreeSet, VecDeque};

use super::plan::{Action, ClientParams, LPlan, LinkParams, RecvParams, unhex};
use crate::common::Stats;
use crate::prng::{chance3, hash3};

#[derive(Clone, Copy, Debug, PartialEq, Eq)]
pub enum NetDir {
    Up,
    Down,
}

pub struct NetLink {
    pub params: LinkParams,
    pub bh_up: bool,
    pub bh_down: bool,
    /// Handshake replies (REG2) towards the sender are lost on this path.
    pub drop_reg2_down: bool,
    ctr_up: u64,
    ctr_down: u64,
}

pub type Addr = (usize, u64);

pub struct RConn {
    pub addr: Addr,
    pub last_rcvd: u64,
    pub recv_log: Vec<u32>,
}

#[derive(Default)]
pub struct SrtRx {
    pub next: Option<u32>,
    pub beyond: BTreeSet<u32>,
    pub losses: BTreeMap<u32, u64>,
    pub last_ack_sent: Option<u32>,
    pub ticks: u32,
    pub pkts_since_ack: u32,
}

pub struct Group {
    pub id: [u8; 256],
    pub conns: Vec<RConn>,
    pub last_addr: Option<Addr>,
    pub created: u64,
    pub srt: SrtRx,
}

pub struct Receiver {
    pub p: RecvParams,
    pub mode: String,
    pub groups: Vec<Group>,
    pub id_counter: u64,
    pub seed: u64,
    /// Sequence numbers that reached the SRT receiver (for ledgers / liveness).
    pub delivered_data: u64,
    pub restarts: u64,
}

pub struct Client {
    pub p: ClientParams,
    pub next_seq: u32,
    pub next_tag: u64,
    /// Recently sent data packets: seq -> bytes (bounded).
    pub sent: VecDeque<(u32, Vec<u8>)>,
    pub acked_to: Option<u32>,
    pub emitted: u64,
    pub rexmits: u64,
    pub seed: u64,
    pub ctr: u64,
}

pub struct Env {
    pub links: Vec<NetLink>,
    pub recv: Receiver,
    pub client: Client,
    pub stats: Stats,
    default_link: LinkParams,
}

fn be32(b: &[u8], off: usize) -> u32 {
    u32::from_be_bytes([b[off], b[off + 1], b[off + 2], b[off + 3]])
}

impl Env {
    pub fn new(plan: &LPlan) -> Env {
        let links = plan
            .links
            .iter()
            .map(|p| NetLink {
                params: p.clone(),
                bh_up: false,
                bh_down: false,
                drop_reg2_down: false,
                ctr_up: 0,
                ctr_down: 0,
            })
            .collect();
        Env {
            links,
            recv: Receiver {
                p: plan.recv.clone(),
                mode: plan.recv.mode.clone(),
                groups: Vec::new(),
                id_counter: 0,
                seed: plan.seed,
                delivered_data: 0,
                restarts: 0,
            },
            client: Client {
                p: plan.client.clone(),
                next_seq: plan.client.start_seq & 0x7FFF_FFFF,
                next_tag: 1,
                sent: VecDeque::new(),
                acked_to: None,
                emitted: 0,
                rexmits: 0,
                seed: plan.seed,
                ctr: 0,
            },
            stats: Stats::default(),
            default_link: LinkParams {
                lat_ms: 20,
                jit_ms: 0,
                loss_up: 0.0,
                loss_down: 0.0,
                dup: 0.0,
                reorder: 0.0,
            },
        }
    }

    fn link_mut(&mut self, path: usize) -> &mut NetLink {
        while self.links.len() <= path {
            self.links.push(NetLink {
                params: self.default_link.clone(),
                bh_up: false,
                bh_down: false,
                drop_reg2_down: false,
                ctr_up: 0,
                ctr_down: 0,
            });
        }
        &mut self.links[path]
    }

    pub fn set_blackhole(&mut self, link: usize, up: bool, down: bool, on: bool) {
        let l = self.link_mut(link);
        if up {
            l.bh_up = on;
        }
        if down {
            l.bh_down = on;
        }
    }

    pub fn set_drop_reg2(&mut self, link: usize, on: bool) {
        self.link_mut(link).drop_reg2_down = on;
    }

    pub fn is_blackholed(&self, link: usize) -> (bool, bool) {
        self.links
            .get(link)
            .map(|l| (l.bh_up, l.bh_down))
            .unwrap_or((false, false))
    }

    /// One datagram enters the network on `path` in direction `dir`; returns
    /// the delivery instants (none if lost, two if duplicated).
    pub fn net_transit(
        &mut self,
        seed: u64,
        path: usize,
        dir: NetDir,
        now: u64,
        bytes: Vec<u8>,
        stats: &mut Stats,
    ) -> Vec<(u64, Vec<u8>)> {
        let l = self.link_mut(path);
        let (bh, loss, ctr) = match dir {
            NetDir::Up => {
                l.ctr_up += 1;
                (l.bh_up, l.params.loss_up, l.ctr_up)
            }
            NetDir::Down => {
                l.ctr_down += 1;
                (l.bh_down, l.params.loss_down, l.ctr_down)
            }
        };
        let stream = 0x4E00 + (path as u64) * 2 + (dir == NetDir::Down) as u64;
        if dir == NetDir::Down && l.drop_reg2_down && bytes.len() >= 2 && bytes[0] == 0x92 && bytes[1] == 0x01 {
            stats.inc("fault.handshake_reply_lost");
            return Vec::new();
        }
        if bh {
            stats.inc("fault.blackholed_datagram");
            return Vec::new();
        }
        if chance3(seed, stream, ctr * 4, loss) {
            stats.inc("fault.datagram_loss");
            return Vec::new();
        }
        let p = &l.params;
        let jitter = if p.jit_ms > 0 {
            hash3(seed, stream, ctr * 4 + 1) % (p.jit_ms + 1)
        } else {
            0
        };
        let mut delay = p.lat_ms + jitter;
        if chance3(seed, stream, ctr * 4 + 2, p.reorder) {
            delay += p.lat_ms + 3;
            stats.inc("fault.datagram_reorder_delay");
        }
        let mut out = vec![(now + delay, bytes.clone())];
        if chance3(seed, stream, ctr * 4 + 3, p.dup) {
            out.push((now + delay * 2 + 1, bytes));
            stats.inc("fault.datagram_duplication");
        }
        out
    }

    // ------------------------------------------------------------------ receiver

    pub fn receiver_restart(&mut self) {
        self.recv.groups.clear();
        self.recv.restarts += 1;
    }

    pub fn set_receiver_mode(&mut self, mode: &str) {
        self.recv.mode = mode.to_string();
    }

    /// Does the receiver currently hold a registration for this address?
    pub fn receiver_knows(&self, addr: Addr) -> bool {
        self.recv
            .groups
            .iter()
            .any(|g| g.conns.iter().any(|c| c.addr == addr))
    }

    pub fn receiver_has_group(&self) -> bool {
        !self.recv.groups.is_empty()
    }

    /// Would the receiver answer a REG2 carrying `id` with REG3?
    pub fn receiver_has_group_id(&self, id: &[u8]) -> bool {
        self.recv.groups.iter().any(|g| g.id[..] == *id)
    }

    pub fn receiver_rx(&mut self, now: u64, path: usize, sgen: u64, b: &[u8]) -> Vec<(usize, u64, Vec<u8>)> {
        let mut out: Vec<(usize, u64, Vec<u8>)> = Vec::new();
        if (self.recv.mode != "coop" && self.recv.mode != "echo_only") || b.len() < 2 {
            return out;
        }
        let addr: Addr = (path, sgen);
        let ty = u16::from_be_bytes([b[0], b[1]]);
        // "echo_only": the receiver keeps the links alive (handshake, keepalive echoes) but its SRT
        // side has stopped: no SRTLA ACKs, no SRT ACKs / NAKs
        if self.recv.mode == "echo_only" && ty & 0xFF00 != 0x9200 && ty != 0x9000 {
            return out;
        }
        let rx = &mut self.recv;
        match ty {
            0x9200 => {
                // REG1: create a group, answer REG2 with the completed id. An
                // address that already belongs to a group, or a full table, gets REG_ERR.
                if b.len() != 258 {
                    return out;
                }
                let addr_known = rx.groups.iter().any(|g| {
                    g.last_addr == Some(addr) && g.conns.is_empty() || g.conns.iter().any(|c| c.addr == addr)
                });
                if addr_known || rx.groups.len() >= 8 {
                    out.push((path, sgen, vec![0x92, 0x10]));
                    self.stats.inc("recv.reg_err_sent");
                    return out;
                }
                let mut id = [0u8; 256];
                id[..128].copy_from_slice(&b[2..130]);
                rx.id_counter += 1;
                for (i, v) in id[128..].iter_mut().enumerate() {
                    *v = (hash3(rx.seed, 0x1D00 + rx.id_counter, i as u64) & 0xFF) as u8;
                }
                rx.groups.push(Group {
                    id,
                    conns: Vec::new(),
                    last_addr: Some(addr),
                    created: now,
                    srt: SrtRx::default(),
                });
                let mut reply = vec![0x92, 0x01];
                reply.extend_from_slice(&id);
                out.push((path, sgen, reply));
                self.stats.inc("recv.reg2_sent");
            }
            0x9201 => {
                if b.len() != 258 {
                    return out;
                }
                let Some(gi) = rx.groups.iter().position(|g| g.id[..] == b[2..258]) else {
                    out.push((path, sgen, vec![0x92, 0x11]));
                    self.stats.inc("recv.reg_ngp_sent");
                    return out;
                };
                // an address registered in another group is rejected
                if rx.groups.iter().enumerate().any(|(k, g)| k != gi && g.conns.iter().any(|c| c.addr == addr)) {
                    out.push((path, sgen, vec![0x92, 0x10]));
                    self.stats.inc("recv.reg_err_sent");
                    return out;
                }
                let max_links = rx.p.max_links;
                let g = &mut rx.groups[gi];
                if !g.conns.iter().any(|c| c.addr == addr) {
                    if g.conns.len() >= max_links {
                        out.push((path, sgen, vec![0x92, 0x10]));
                        self.stats.inc("recv.reg_err_sent");
                        return out;
                    }
                    g.conns.push(RConn {
                        addr,
                        last_rcvd: now,
                        recv_log: Vec::new(),
                    });
                } else if let Some(c) = g.conns.iter_mut().find(|c| c.addr == addr) {
                    c.last_rcvd = now;
                }
                g.last_addr = Some(addr);
                out.push((path, sgen, vec![0x92, 0x02]));
                self.stats.inc("recv.reg3_sent");
            }
            _ => {
                let Some(g) = rx
                    .groups
                    .iter_mut()
                    .find(|g| g.conns.iter().any(|c| c.addr == addr))
                else {
                    return out;
                };
                let ci = g.conns.iter().position(|c| c.addr == addr).unwrap();
                g.conns[ci].last_rcvd = now;
                if ty == 0x9000 {
                    // Keepalive: verbatim echo.
                    out.push((path, sgen, b.to_vec()));
                    self.stats.inc("recv.keepalive_echo");
                    return out;
                }
                if ty & 0xFF00 == 0x9200 || ty == 0x9100 {
                    return out;
                }
                g.last_addr = Some(addr);
                let is_data = b.len() >= 4 && (b[0] & 0x80) == 0;
                if is_data {
                    let sn = be32(b, 0);
                    g.conns[ci].recv_log.push(sn);
                    if g.conns[ci].recv_log.len() >= rx.p.ack_every {
                        let mut ack = vec![0x91, 0x00, 0x00, 0x00];
                        for s in g.conns[ci].recv_log.drain(..) {
                            ack.extend_from_slice(&s.to_be_bytes());
                        }
                        out.push((path, sgen, ack));
                        self.stats.inc("recv.srtla_ack_sent");
                    }
                    if b.len() >= 16 {
                        rx.delivered_data += 1;
                        let naks = g.srt.on_data(sn, now, rx.p.naks);
                        if !naks.is_empty() {
                            let pkt = build_nak(&naks);
                            if let Some(a) = g.last_addr {
                                out.push((a.0, a.1, pkt));
                                self.stats.inc("recv.nak_sent");
                            }
                        }
                    }
                } else if b.len() >= 16 {
                    // SRT control from the client: answer a handshake / keepalive
                    // with one control datagram of the same type on the last address.
                    if ty == 0x8000 || ty == 0x8001 {
                        let mut reply = b.to_vec();
                        if reply.len() > 20 {
                            reply[19] ^= 0x5a;
                        }
                        if let Some(a) = g.last_addr {
                            out.push((a.0, a.1, reply));
                            self.stats.inc("recv.srt_control_reply");
                        }
                    }
                }
            }
        }
        out
    }

    pub fn receiver_timer(&mut self, now: u64) -> Vec<(usize, u64, Vec<u8>)> {
        let mut out: Vec<(usize, u64, Vec<u8>)> = Vec::new();
        let rx = &mut self.recv;
        if rx.mode != "coop" {
            return out;
        }
        let expiry = rx.p.link_expiry_ms;
        let mut stats_exp = 0u64;
        let mut groups_exp = 0u64;
        rx.groups.retain_mut(|g| {
            let before = g.conns.len();
            g.conns.retain(|c| now.saturating_sub(c.last_rcvd) < expiry);
            stats_exp += (before - g.conns.len()) as u64;
            if g.conns.is_empty() {
                if now.saturating_sub(g.created) >= expiry {
                    groups_exp += 1;
                    return false;
                }
            } else {
                g.created = now;
            }
            true
        });
        self.stats.add("recv.link_expired", stats_exp);
        self.stats.add("recv.group_expired", groups_exp);
        let p = rx.p.clone();
        for g in rx.groups.iter_mut() {
            if g.conns.is_empty() {
                continue;
            }
            g.srt.ticks += 1;
            // Drop losses we have given up on.
            let given_up: Vec<u32> = g
                .srt
                .losses
                .iter()
                .filter(|(_, t)| now.saturating_sub(**t) >= p.drop_after_ms)
                .map(|(s, _)| *s)
                .collect();
            for s in given_up {
                g.srt.losses.remove(&s);
            }
            g.srt.advance();
            // Cumulative ACK when it moved.
            if let Some(next) = g.srt.next
                && g.srt.last_ack_sent != Some(next)
            {
                g.srt.last_ack_sent = Some(next);
                let pkt = build_srt_ack(next, g.srt.ticks);
                if p.fanout_all {
                    for c in &g.conns {
                        out.push((c.addr.0, c.addr.1, pkt.clone()));
                    }
                } else if let Some(a) = g.last_addr {
                    out.push((a.0, a.1, pkt));
                }
                self.stats.inc("recv.srt_ack_sent");
            }
            // Periodic NAK re-report.
            if p.naks && p.renak_ticks > 0 && g.srt.ticks % p.renak_ticks == 0 && !g.srt.losses.is_empty() {
                let list: Vec<u32> = g.srt.losses.keys().copied().take(200).collect();
                let pkt = build_nak(&list);
                if let Some(a) = g.last_addr {
                    out.push((a.0, a.1, pkt));
                    self.stats.inc("recv.nak_resent");
                }
            }
        }
        out
    }

    // ------------------------------------------------------------------ client

    fn data_packet(c: &mut Client, seq: u32, len: usize, rexmit: bool) -> Vec<u8> {
        let len = len.max(1);
        let mut p = vec![0u8; len];
        let tag = c.next_tag;
        c.next_tag += 1;
        let seqb = (seq & 0x7FFF_FFFF).to_be_bytes();
        let n = len.min(4);
        p[..n].copy_from_slice(&seqb[..n]);
        if len > 4 {
            p[4] = 0xC0 | if rexmit { 0x04 } else { 0 };
        }
        for (i, b) in p.iter_mut().enumerate().skip(5) {
            *b = (hash3(c.seed, 0xDA7A + tag, i as u64 / 8) >> ((i % 8) * 8)) as u8;
        }
        if len >= 24 {
            p[len - 8..].copy_from_slice(&tag.to_be_bytes());
        } else if len >= 9 {
            let t = (tag as u32).to_be_bytes();
            p[len - 4..].copy_from_slice(&t);
        }
        p[0] &= 0x7F;
        p
    }

    pub fn client_action(&mut self, _now: u64, a: &Action) -> Vec<(u64, Vec<u8>)> {
        let c = &mut self.client;
        let mut out = Vec::new();
        match a {
            Action::Burst {
                n,
                pps,
                size_lo,
                size_hi,
                stride,
            } => {
                let gap_us = 1_000_000u64 / (*pps).max(1) as u64;
                for k in 0..*n as u64 {
                    c.ctr += 1;
                    let span = (*size_hi as u64).saturating_sub(*size_lo as u64) + 1;
                    let len = *size_lo as u64 + hash3(c.seed, 0xC11E, c.ctr) % span;
                    let seq = c.next_seq;
                    c.next_seq = c.next_seq.wrapping_add(*stride) & 0x7FFF_FFFF;
                    let pkt = Self::data_packet(c, seq, len as usize, false);
                    if pkt.len() >= 4 {
                        c.sent.push_back((seq, pkt.clone()));
                        if c.sent.len() > 3000 {
                            c.sent.pop_front();
                        }
                    }
                    c.emitted += 1;
                    out.push((k * gap_us / 1000, pkt));
                }
            }
            Action::Rexmit { back, count } => {
                for k in 0..*count as usize {
                    let idx = c.sent.len().checked_sub(1 + *back as usize + k);
                    if let Some(i) = idx
                        && let Some((seq, old)) = c.sent.get(i).cloned()
                    {
                        let pkt = Self::data_packet(c, seq, old.len().max(16), true);
                        c.rexmits += 1;
                        out.push((k as u64, pkt));
                    }
                }
            }
            Action::ClientControl { ctype, len } => {
                c.ctr += 1;
                let mut p = vec![0u8; (*len).max(1) as usize];
                let t = (ctype | 0x8000).to_be_bytes();
                let n = p.len().min(2);
                p[..n].copy_from_slice(&t[..n]);
                for (i, b) in p.iter_mut().enumerate().skip(2) {
                    *b = (hash3(c.seed, 0xC7A1 + c.ctr, i as u64) & 0xFF) as u8;
                }
                out.push((0, p));
            }
            Action::ClientRaw { hex } => {
                if let Some(b) = unhex(hex) {
                    out.push((0, b));
                }
            }
            _ => {}
        }
        out
    }

    /// The client receives a datagram relayed by the sender.
    pub fn client_rx(&mut self, _now: u64, b: &[u8]) -> Vec<(u64, Vec<u8>)> {
        let c = &mut self.client;
        let mut out = Vec::new();
        if b.len() < 8 {
            return out;
        }
        let ty = u16::from_be_bytes([b[0], b[1]]);
        if ty == 0x8002 && b.len() >= 20 {
            c.acked_to = Some(be32(b, 16));
        } else if ty == 0x8003 && c.p.rexmit_on_nak {
            let list = ref_parse_nak(b);
            let mut budget = 40;
            for s in list {
                if budget == 0 {
                    break;
                }
                if let Some((seq, old)) = c.sent.iter().rev().find(|(q, _)| *q == s).cloned() {
                    let pkt = Self::data_packet(c, seq, old.len().max(16), true);
                    c.rexmits += 1;
                    budget -= 1;
                    out.push((c.p.rexmit_delay_ms, pkt));
                }
            }
        }
        out
    }

    pub fn client_timer(&mut self, _now: u64, _token: u64) -> Vec<(u64, Vec<u8>)> {
        Vec::new()
    }
}

impl SrtRx {
    /// A data packet reached the SRT receiver; returns sequence numbers to NAK now.
    pub fn on_data(&mut self, sn: u32, now: u64, naks: bool) -> Vec<u32> {
        let mut report = Vec::new();
        match self.next {
            None => {
                self.next = Some(sn.wrapping_add(1) & 0x7FFF_FFFF);
            }
            Some(next) => {
                let ahead = sn.wrapping_sub(next) & 0x7FFF_FFFF;
                if ahead == 0 {
                    self.next = Some(next.wrapping_add(1) & 0x7FFF_FFFF);
                    self.advance();
                } else if ahead < 0x2000_0000 {
                    // Gap: report what is missing (bounded).
                    if !self.beyond.contains(&sn) {
                        let hi = self.beyond.iter().next_back().copied();
                        let from = match hi {
                            Some(h) if (h.wrapping_sub(next) & 0x7FFF_FFFF) < 0x2000_0000 => {
                                let h1 = h.wrapping_add(1) & 0x7FFF_FFFF;
                                if (sn.wrapping_sub(h1) & 0x7FFF_FFFF) < 0x2000_0000 { h1 } else { sn }
                            }
                            _ => next,
                        };
                        let mut s = from;
                        let mut n = 0;
                        while s != sn && n < 300 {
                            if !self.beyond.contains(&s) && !self.losses.contains_key(&s) {
                                self.losses.insert(s, now);
                                report.push(s);
                            }
                            s = s.wrapping_add(1) & 0x7FFF_FFFF;
                            n += 1;
                        }
                        if ahead > 5000 {
                            // A jump: resynchronise instead of tracking a huge hole.
                            self.losses.clear();
                            self.beyond.clear();
                            self.next = Some(sn.wrapping_add(1) & 0x7FFF_FFFF);
                            report.clear();
                            return report;
                        }
                        self.beyond.insert(sn);
                    }
                } else {
                    // Behind the cumulative point, or a late fill of a hole we gave up on.
                    self.losses.remove(&sn);
                }
                self.losses.remove(&sn);
            }
        }
        if !naks {
            report.clear();
        }
        report
    }

    /// Advance the cumulative point over everything received or given up.
    pub fn advance(&mut self) {
        let Some(mut next) = self.next else { return };
        loop {
            if self.beyond.remove(&next) {
                next = next.wrapping_add(1) & 0x7FFF_FFFF;
            } else if !self.losses.contains_key(&next) && !self.beyond.is_empty() {
                // `next` is neither received nor tracked as lost: it was given up.
                let any_ahead = self
                    .beyond
                    .iter()
                    .any(|b| (b.wrapping_sub(next) & 0x7FFF_FFFF) < 0x2000_0000);
                if any_ahead {
                    next = next.wrapping_add(1) & 0x7FFF_FFFF;
                } else {
                    self.beyond.clear();
                    break;
                }
            } else {
                break;
            }
        }
        self.next = Some(next);
    }
}

pub fn build_srt_ack(ack: u32, counter: u32) -> Vec<u8> {
    let mut p = vec![0u8; 44];
    p[0] = 0x80;
    p[1] = 0x02;
    p[4..8].copy_from_slice(&counter.to_be_bytes());
    p[16..20].copy_from_slice(&(ack & 0x7FFF_FFFF).to_be_bytes());
    p
}

/// NAK in the layout the repository's decoder and tests use: 4-byte header,
/// then 32-bit entries; a range is `first | 0x8000_0000` followed by `last`.
pub fn build_nak(seqs: &[u32]) -> Vec<u8> {
    let mut p = vec![0x80, 0x03, 0x00, 0x00];
    let mut i = 0;
    while i < seqs.len() {
        let mut j = i;
        while j + 1 < seqs.len() && seqs[j + 1] == seqs[j].wrapping_add(1) {
            j += 1;
        }
        if j > i {
            p.extend_from_slice(&(seqs[i] | 0x8000_0000).to_be_bytes());
            p.extend_from_slice(&seqs[j].to_be_bytes());
        } else {
            p.extend_from_slice(&seqs[i].to_be_bytes());
        }
        i = j + 1;
    }
    p
}

/// Reference NAK decoder (independent of the repository's), same layout.
pub fn ref_parse_nak(b: &[u8]) -> Vec<u32> {
    let mut out = Vec::new();
    if b.len() < 8 || b[0] != 0x80 || b[1] != 0x03 {
        return out;
    }
    let words: Vec<u32> = b[4..].chunks_exact(4).map(|c| be32(c, 0)).collect();
    let mut k = 0;
    while k < words.len() {
        let w = words[k];
        k += 1;
        if w & 0x8000_0000 != 0 {
            if k >= words.len() {
                break;
            }
            let end = words[k];
            k += 1;
            let mut s = w & 0x7FFF_FFFF;
            while s <= end && out.len() < 1000 {
                out.push(s);
                s = s.wrapping_add(1);
                if s == 0 {
                    // wrapped past u32::MAX: `s <= end` would hold again only for end == u32::MAX
                    if end != u32::MAX {
                        break;
                    }
                }
            }
        } else {
            out.push(w);
        }
    }
    out
}
