//! C18 — runtime control protocol (restricted claim): request-line histories
//! from several simulated control clients, interleaved by the seeded executor,
//! against a configuration reference model; stdin-style and socket-style entry
//! points compared on twin configurations.

use std::cell::RefCell;
use std::rc::Rc;

use serde::{Deserialize, Serialize};
use serde_json::Value;
use srtla_core::priority::CriticalWindow;
use srtla_send::config::DynamicConfig;
use srtla_send::control::{SubscriptionContext, dispatch, dispatch_async};
use srtla_send::stats::SharedStats;
use srtla_send::subscriptions::SubscriptionHub;
use tokio::sync::mpsc;

use super::{Executor, Policy, RunEnd, yield_now};
use crate::common::{Check, RunOutcome, Stats, Tier, Violation};
use crate::prng::{LogHash, Rng};

#[derive(Clone, Debug, Serialize, Deserialize, PartialEq)]
pub struct CPlan {
    pub seed: u64,
    /// Per client: (socket-style entry point?, lines)
    pub clients: Vec<(bool, Vec<String>)>,
    #[serde(default)]
    pub schedule: Option<Vec<u32>>,
}

/// Reference model of the configuration.
#[derive(Clone, Debug, PartialEq)]
struct Model {
    mode: String,
    quality: bool,
    stall: bool,
    timeout: u64,
}

impl Default for Model {
    fn default() -> Self {
        Model { mode: "enhanced".into(), quality: true, stall: true, timeout: 5000 }
    }
}

#[derive(Debug, PartialEq)]
enum Expect {
    /// No response at all.
    Silent,
    /// Exactly one response with this id and a result.
    Result(Value, Option<Value>),
    /// Exactly one response with this id and one of these error codes.
    Error(Value, Vec<i64>),
    /// The id may be echoed or null (the line is not a request object).
    ErrorAnyId(Vec<i64>),
    /// Subscription-only method: judged per entry point, not by the model.
    Subscription,
}

/// What the statement says must happen for `line`, and its effect on the model.
fn reference(line: &str, m: &mut Model) -> Expect {
    let t = line.trim();
    if t.is_empty() {
        return Expect::Silent;
    }
    let v: Value = match serde_json::from_str(t) {
        Ok(v) => v,
        Err(_) => return Expect::ErrorAnyId(vec![-32700]),
    };
    let Some(obj) = v.as_object() else {
        return Expect::ErrorAnyId(vec![-32700, -32600]);
    };
    let (Some(ver), Some(method)) = (obj.get("jsonrpc").and_then(Value::as_str), obj.get("method").and_then(Value::as_str)) else {
        return Expect::ErrorAnyId(vec![-32700, -32600]);
    };
    let id = obj.get("id").cloned().filter(|i| !i.is_null());
    if ver != "2.0" {
        return match id {
            Some(id) => Expect::Error(id, vec![-32600]),
            None => Expect::Silent,
        };
    }
    let params = obj.get("params").cloned().unwrap_or(Value::Null);
    let outcome: Result<Option<Value>, i64> = match method {
        "set_mode" => match params.get("mode").and_then(Value::as_str) {
            Some(s @ ("classic" | "enhanced")) => {
                m.mode = s.to_string();
                Ok(Some(serde_json::json!({"mode": s})))
            }
            _ => Err(-32602),
        },
        "set_quality" => match params.get("enabled").and_then(Value::as_bool) {
            Some(b) => {
                m.quality = b;
                Ok(Some(serde_json::json!({"enabled": b})))
            }
            None => Err(-32602),
        },
        "set_stall_deselect" => match params.get("enabled").and_then(Value::as_bool) {
            Some(b) => {
                m.stall = b;
                Ok(Some(serde_json::json!({"enabled": b})))
            }
            None => Err(-32602),
        },
        "set_conn_timeout" => match params.get("ms").and_then(Value::as_u64) {
            Some(ms) => {
                m.timeout = ms.clamp(1000, 60_000);
                Ok(Some(serde_json::json!({"ms": m.timeout})))
            }
            None => Err(-32602),
        },
        "get_status" | "get_stats" => Ok(None),
        "subscribe" | "unsubscribe" | "get_subscription_count" => return Expect::Subscription,
        _ => Err(-32601),
    };
    match (id, outcome) {
        (None, _) => Expect::Silent,
        (Some(id), Ok(r)) => Expect::Result(id, r),
        (Some(id), Err(code)) => Expect::Error(id, vec![code]),
    }
}

struct Env {
    cfg: DynamicConfig,
    twin: DynamicConfig,
    stats: SharedStats,
    cw: CriticalWindow,
    hub: SubscriptionHub,
    model: RefCell<Model>,
    violations: RefCell<Vec<Violation>>,
    stat: RefCell<Stats>,
    log: RefCell<LogHash>,
}

fn judge(env: &Env, line: &str, resp: Option<String>, expect: &Expect, step: u64, entry: &str) {
    let mut bad = |mon: &str, label: &str, msg: String| {
        env.violations.borrow_mut().push(Violation::new(mon, label, step, format!("[{entry}] line {:?}: {msg}", truncate(line))));
    };
    let parsed: Option<Value> = match &resp {
        None => None,
        Some(s) => match serde_json::from_str::<Value>(s) {
            Ok(v) => Some(v),
            Err(e) => {
                bad("C18.response", "not_json", format!("response is not JSON: {e}"));
                return;
            }
        },
    };
    if let Some(v) = &parsed {
        let has_r = v.get("result").is_some();
        let has_e = v.get("error").is_some();
        if v["jsonrpc"] != "2.0" || has_r == has_e || v.get("id").is_none() {
            bad("C18.response", "malformed", format!("response {v} is not a JSON-RPC 2.0 response with exactly one of result / error"));
            return;
        }
    }
    let code = parsed.as_ref().and_then(|v| v["error"]["code"].as_i64());
    match expect {
        Expect::Silent => {
            if parsed.is_some() {
                bad("C18.response", "unexpected", format!("no response expected, got {}", resp.unwrap_or_default()));
            }
        }
        Expect::Result(id, want) => match &parsed {
            Some(v) if v["id"] == *id && v.get("result").is_some() => {
                if let Some(w) = want
                    && v["result"] != *w
                {
                    bad("C18.effect", "echo", format!("result {} but {} was applied", v["result"], w));
                }
            }
            other => bad("C18.response", "wrong", format!("expected a result for id {id}, got {:?}", other)),
        },
        Expect::Error(id, codes) => match &parsed {
            Some(v) if v["id"] == *id && code.is_some_and(|c| codes.contains(&c)) => {}
            other => bad("C18.response", "wrong_error", format!("expected error {codes:?} for id {id}, got {:?}", other)),
        },
        Expect::ErrorAnyId(codes) => match &parsed {
            Some(_) if code.is_some_and(|c| codes.contains(&c)) => {}
            other => bad("C18.response", "wrong_error", format!("expected error {codes:?}, got {:?}", other)),
        },
        Expect::Subscription => {}
    }
}

fn truncate(s: &str) -> String {
    let mut t: String = s.chars().take(120).collect();
    if s.chars().count() > 120 {
        t.push('…');
    }
    t
}

fn check_model(env: &Env, step: u64, line: &str) {
    let m = env.model.borrow();
    let snap = env.cfg.snapshot();
    let got = Model { mode: snap.mode.to_string(), quality: snap.quality_enabled, stall: snap.stall_deselect, timeout: snap.conn_timeout_ms };
    if got != *m {
        env.violations.borrow_mut().push(Violation::new(
            "C18.effect",
            "snapshot",
            step,
            format!("after line {:?}: configuration snapshot {:?} but the reference model says {:?}", truncate(line), got, *m),
        ));
    }
    if !(1000..=60_000).contains(&snap.conn_timeout_ms) {
        env.violations.borrow_mut().push(Violation::new("C18.effect", "clamp", step, format!("connection timeout {} outside 1000..60000", snap.conn_timeout_ms)));
    }
    // the next status answer shows it too
    if let Some(r) = dispatch(&env.cfg, Some(&env.stats), Some(&env.cw), r#"{"jsonrpc":"2.0","id":"probe","method":"get_status"}"#) {
        let v: Value = serde_json::from_str(&r.to_json()).unwrap_or(Value::Null);
        let res = &v["result"];
        if res["mode"] != m.mode.as_str() || res["quality_enabled"] != m.quality || res["stall_deselect"] != m.stall || res["conn_timeout_ms"] != m.timeout {
            env.violations.borrow_mut().push(Violation::new("C18.effect", "status", step, format!("get_status answers {res} but the reference model says {:?}", *m)));
        }
    }
}

async fn client(env: Rc<Env>, shared: super::SharedRc, socket_style: bool, lines: Vec<String>) {
    let (push_tx, _push_rx) = mpsc::channel::<String>(8);
    let mut owned: Vec<String> = Vec::new();
    for line in lines {
        let step = shared.step.get();
        // reference first (no other task can run between this and the dispatch: no await in between)
        let expect = reference(&line, &mut env.model.borrow_mut());
        let (resp, twin_resp) = if socket_style {
            let mut ctx = SubscriptionContext { hub: &env.hub, push_tx: push_tx.clone(), owned_ids: &mut owned };
            let r = dispatch_async(&env.cfg, Some(&env.stats), Some(&env.cw), Some(&mut ctx), &line).await.map(|r| r.to_json());
            let t = dispatch(&env.twin, Some(&env.stats), Some(&env.cw), &line).map(|r| r.to_json());
            (r, t)
        } else {
            let r = dispatch(&env.cfg, Some(&env.stats), Some(&env.cw), &line).map(|r| r.to_json());
            let t = dispatch_async(&env.twin, Some(&env.stats), Some(&env.cw), None, &line).await.map(|r| r.to_json());
            (r, t)
        };
        env.stat.borrow_mut().inc("c18.lines");
        {
            let mut l = env.log.borrow_mut();
            l.bytes(line.as_bytes());
            l.bytes(resp.as_deref().unwrap_or("").as_bytes());
        }
        let entry = if socket_style { "socket" } else { "stdin" };
        judge(&env, &line, resp.clone(), &expect, step, entry);
        match expect {
            Expect::Subscription => env.stat.borrow_mut().inc("c18.subscription_lines"),
            Expect::Silent => env.stat.borrow_mut().inc("c18.silent_lines"),
            Expect::Result(..) => env.stat.borrow_mut().inc("c18.result_lines"),
            Expect::Error(..) | Expect::ErrorAnyId(..) => env.stat.borrow_mut().inc("c18.error_lines"),
        }
        // entry-point differential on everything but the subscription methods
        if !matches!(expect, Expect::Subscription) {
            let norm = |s: &Option<String>| s.as_ref().and_then(|x| serde_json::from_str::<Value>(x).ok());
            let (a, b) = (norm(&resp), norm(&twin_resp));
            let same = match (&a, &b) {
                (Some(x), Some(y)) => {
                    // parse-error texts carry the same serde message; compare everything
                    x == y
                }
                (None, None) => true,
                _ => false,
            };
            if !same {
                env.violations.borrow_mut().push(Violation::new(
                    "C18.entry_points",
                    "",
                    step,
                    format!("line {:?}: {entry} entry point answered {:?}, the other one {:?}", truncate(&line), resp, twin_resp),
                ));
            }
        }
        check_model(&env, step, &line);
        yield_now().await;
    }
}

pub fn gen_line(r: &mut Rng) -> String {
    let id = match r.below(9) {
        0 => String::new(),
        1 => r#","id":null"#.to_string(),
        2 => format!(r#","id":{}"#, r.below(1000)),
        3 => r#","id":"abc""#.to_string(),
        4 => r#","id":-1.5e3"#.to_string(),
        5 => r#","id":[1,2]"#.to_string(),
        6 => r#","id":{"a":1}"#.to_string(),
        7 => r#","id":true"#.to_string(),
        _ => format!(r#","id":{}"#, r.range(1, 9)),
    };
    let ms = [
        "0", "1", "999", "1000", "1001", "5000", "59999", "60000", "60001", "18446744073709551615", "18446744073709551616", "-1", "2.5", "\"5000\"", "null", "true", "[]", "1e3",
    ];
    // caller-supplied names of any length and any mix of 1..4-byte characters (they end up
    // quoted in error messages)
    let long_name = |r: &mut Rng| -> String {
        let target = match r.below(4) {
            0 => r.range(1, 40),
            1 => r.range(100, 140),
            2 => r.range(120, 136),
            _ => r.range(200, 600),
        } as usize;
        let mut s = String::new();
        while s.len() < target {
            s.push(*r.pick(&['a', 'Z', '_', '.', 'é', 'ß', '€', '語', '😀', ' ']));
        }
        s
    };
    let body = match r.below(25) {
        22 => format!(r#""method":"{}""#, long_name(r)),
        23 => format!(r#""method":"set_mode","params":{{"mode":"{}"}}"#, long_name(r)),
        24 => match r.below(2) {
            0 => format!(r#""method":"subscribe","params":{{"topic":"{}"}}"#, long_name(r)),
            _ => format!(r#""method":"unsubscribe","params":{{"subscription_id":"{}"}}"#, long_name(r)),
        },
        0 | 1 => format!(r#""method":"set_mode","params":{{"mode":"{}"}}"#, r.pick(&["classic", "enhanced", "Classic", "", "edpf"])),
        2 => format!(r#""method":"set_mode","params":{{"mode":{}}}"#, r.pick(&["1", "null", "[\"classic\"]"])),
        3 | 4 => format!(r#""method":"set_quality","params":{{"enabled":{}}}"#, r.pick(&["true", "false", "1", "\"true\"", "null"])),
        5 | 6 => format!(r#""method":"set_stall_deselect","params":{{"enabled":{}}}"#, r.pick(&["true", "false", "0", "{}"])),
        7..=10 => format!(r#""method":"set_conn_timeout","params":{{"ms":{}}}"#, r.pick(&ms)),
        11 => r#""method":"set_conn_timeout""#.to_string(),
        12 => r#""method":"set_conn_timeout","params":[5000]"#.to_string(),
        13 => r#""method":"get_status""#.to_string(),
        14 => r#""method":"get_stats","params":{}"#.to_string(),
        15 => format!(r#""method":"{}""#, r.pick(&["nope", "", "set_mode ", "GET_STATUS", "mark_critical"])),
        16 => format!(r#""method":"subscribe","params":{{"topic":"{}"}}"#, r.pick(&["stats", "priority.window", "bogus"])),
        17 => format!(r#""method":"unsubscribe","params":{{"subscription_id":"sub-{}"}}"#, r.below(4)),
        18 => r#""method":"get_subscription_count""#.to_string(),
        // duplicate *unknown* member: ignored. (Duplicates of jsonrpc/method/params/id are not
        // generated: JSON leaves them undefined and the statement does not settle them.)
        19 => r#""method":"set_mode","params":{"mode":"classic"},"x":1,"x":2"#.to_string(),
        20 => r#""method":123"#.to_string(),
        _ => r#""method":"set_quality","params":{"enabled":true,"extra":{"deep":[[[[[[1]]]]]]}}"#.to_string(),
    };
    let ver = match r.below(12) {
        0 => r#""jsonrpc":"1.0""#,
        1 => r#""jsonrpc":2.0"#,
        2 => r#""jsonrpc":"2""#,
        3 => "",
        _ => r#""jsonrpc":"2.0""#,
    };
    let mut line = if ver.is_empty() { format!("{{{body}{id}}}") } else { format!("{{{ver},{body}{id}}}") };
    // malformed-line faults
    match r.below(14) {
        0 => {
            let cut = r.below(line.len() as u64 + 1) as usize;
            let mut c = cut;
            while !line.is_char_boundary(c) {
                c -= 1;
            }
            line.truncate(c);
        }
        1 => line = format!("  {line}  "),
        2 => line = r.pick(&["", "   ", "\t", "null", "42", "\"str\"", "[]", "[{\"jsonrpc\":\"2.0\",\"method\":\"get_status\",\"id\":1}]", "{", "}", "{}"]).to_string(),
        3 => {
            let mut b = vec![0u8; r.range(1, 40) as usize];
            r.fill(&mut b);
            line = String::from_utf8_lossy(&b).replace(['\n', '\r'], " ");
        }
        4 => {
            let depth = r.range(10, 200) as usize;
            line = format!(r#"{{"jsonrpc":"2.0","method":"get_status","params":{}{}{id}}}"#, "[".repeat(depth), "]".repeat(depth));
        }
        _ => {}
    }
    line
}

pub fn generate(seed: u64, _index: u64) -> CPlan {
    let mut r = Rng::new(seed ^ 0xC18);
    let n = r.range(1, 4);
    let clients = (0..n).map(|_| (r.chance(0.5), (0..r.range(1, 30)).map(|_| gen_line(&mut r)).collect())).collect();
    CPlan { seed, clients, schedule: None }
}

pub fn execute(plan: &CPlan, want_excerpt: bool) -> (RunOutcome, Vec<u32>) {
    crate::lsim::clear_thread_seams();
    let env = Rc::new(Env {
        cfg: DynamicConfig::new(),
        twin: DynamicConfig::new(),
        stats: SharedStats::new(),
        cw: CriticalWindow::new(),
        hub: SubscriptionHub::new(),
        model: RefCell::new(Model::default()),
        violations: RefCell::new(Vec::new()),
        stat: RefCell::new(Stats::default()),
        log: RefCell::new(LogHash::default()),
    });
    let mut ex = Executor::new(plan.seed ^ 0x18, Policy::Uniform, plan.schedule.clone());
    for (i, (sock, lines)) in plan.clients.iter().enumerate() {
        ex.spawn(&format!("client{i}"), 0, client(env.clone(), ex.shared.clone(), *sock, lines.clone()));
    }
    let end = ex.run();
    let mut out = RunOutcome::default();
    if !matches!(end, RunEnd::AllDone) {
        env.violations.borrow_mut().push(Violation::new("C18.progress", "", 0, "a control client task never finished".into()));
    }
    // twin consistency at the end: both configurations saw the same lines
    let (a, b) = (env.cfg.snapshot(), env.twin.snapshot());
    if format!("{a:?}") != format!("{b:?}") {
        env.violations.borrow_mut().push(Violation::new("C18.entry_points", "end_state", 0, format!("configurations diverged: {a:?} vs {b:?}")));
    }
    out.violations = env.violations.borrow().clone();
    out.stats = env.stat.borrow().clone();
    let mut log = *env.log.borrow();
    for c in &ex.schedule {
        log.u64(*c as u64);
    }
    out.log_hash = log.0;
    out.nontrivial = out.stats.get("c18.lines") > 0;
    out.states = vec![log.0];
    if want_excerpt {
        for (i, (sock, lines)) in plan.clients.iter().enumerate() {
            out.excerpt.push(format!("client{i} socket_style={sock}: {} lines, first: {:?}", lines.len(), lines.first().map(|l| truncate(l))));
        }
        out.excerpt.push(format!("schedule: {:?}", ex.schedule));
    }
    crate::lsim::clear_thread_seams();
    (out, ex.schedule)
}

pub struct C18Check;

impl Check for C18Check {
    fn id(&self) -> &'static str {
        "C18"
    }
    fn engine(&self) -> &'static str {
        "T"
    }
    fn level(&self) -> &'static str {
        "exploration"
    }
    fn runs(&self, tier: Tier) -> u64 {
        match tier {
            Tier::Quick => 20_000,
            Tier::Thorough => 2_000_000,
        }
    }
    fn generate(&self, run_seed: u64, index: u64, _tier: Tier) -> Value {
        serde_json::to_value(generate(run_seed, index)).unwrap()
    }
    fn execute(&self, plan: &Value, want_excerpt: bool) -> RunOutcome {
        let plan: CPlan = serde_json::from_value(plan.clone()).unwrap_or_else(|e| panic!("bad C plan: {e}"));
        execute(&plan, want_excerpt).0
    }
    fn shrink(&self, plan: &Value) -> Vec<Value> {
        let Ok(p) = serde_json::from_value::<CPlan>(plan.clone()) else { return Vec::new() };
        let mut out = Vec::new();
        for i in 0..p.clients.len() {
            if p.clients.len() > 1 {
                let mut q = p.clone();
                q.clients.remove(i);
                out.push(serde_json::to_value(q).unwrap());
            }
            let n = p.clients[i].1.len();
            if n > 1 {
                let mut q = p.clone();
                q.clients[i].1.drain(..n / 2);
                out.push(serde_json::to_value(q).unwrap());
                let mut q = p.clone();
                q.clients[i].1.truncate(n / 2);
                out.push(serde_json::to_value(q).unwrap());
            }
            for j in 0..n.min(40) {
                let mut q = p.clone();
                q.clients[i].1.remove(j);
                out.push(serde_json::to_value(q).unwrap());
            }
        }
        out
    }
    fn rule(&self) -> String {
        "one run = 1..4 simulated control clients (stdin-style through dispatch, socket-style through dispatch_async with a real SubscriptionContext), each a task issuing 1..30 generated lines (every method with well-typed, ill-typed, missing and extreme parameters; ids of every JSON type, null and absent; wrong versions; duplicate keys; deep nesting) with malformed-line faults (truncation at a random offset, arbitrary bytes, non-object JSON, blank lines), interleaved line by line by the seeded executor. Per line: no panic, response well-formedness and error class against a reference reading of the statement, echo of the applied value; after every line the configuration snapshot and a get_status answer must equal a reference model (timeout clamped to 1000..60000); every non-subscription line is also sent to the other entry point on a twin configuration and must get the same answer. Non-trivial = at least one line was judged; distinct = distinct (lines, responses, schedule) hashes".into()
    }
    fn assumptions(&self) -> Vec<String> {
        vec![
            "restricted claim: totality over the JSON input space is sampled by the line generator, not enumerated; interleaving is at line granularity (dispatch has no await outside the subscription methods)".into(),
            "a request is a JSON object with string members jsonrpc and method; anything else may be answered -32700 or -32600 with any id; an id of null is treated as absent".into(),
            "true thread-level races on the configuration atomics are not simulated (each field is one relaxed atomic; per-field atomicity is trusted from std)".into(),
        ]
    }
    fn real_components(&self) -> Vec<String> {
        vec!["control::dispatch, control::dispatch_async (with SubscriptionContext and a real SubscriptionHub), handle_method, DynamicConfig, Response::to_json, SharedStats::to_json".into()]
    }
    fn stub_components(&self) -> Vec<String> {
        vec!["stdin thread and control_socket::handle framing: the clients call the two dispatch entry points directly".into(), "tokio runtime: in-tree seeded single-thread executor".into()]
    }
    fn expected_probes(&self) -> Vec<&'static str> {
        vec!["c18.lines", "c18.result_lines", "c18.error_lines", "c18.silent_lines", "c18.subscription_lines"]
    }
}
