//! C19 — IP-list reload: refusal rules, applied list, survivors untouched,
//! removed links gone from all three structures, additions once.

use std::collections::{HashMap, HashSet};
use std::net::IpAddr;

use super::data_seq;
use crate::lsim::{MonOut, Monitor, StepCtx, StepKind};

const M: &str = "C19";

#[derive(Default)]
pub struct C19 {
    /// What the last accepted SIGHUP must lead to.
    pending: Option<Vec<IpAddr>>,
    carried: HashMap<u64, Vec<u32>>,
}

impl C19 {
    pub fn new() -> Self {
        Self::default()
    }
}

/// The statement's reading of a file: the parsable lines, in order.
fn parsable_lines(text: &str) -> Vec<IpAddr> {
    text.lines()
        .map(|l| l.trim())
        .filter(|l| !l.is_empty())
        .filter_map(|l| l.parse::<IpAddr>().ok())
        .collect()
}

impl Monitor for C19 {
    fn on_step(&mut self, ctx: &StepCtx<'_>, out: &mut MonOut) {
        // remember which numbers each link carried (unique copies)
        if let StepKind::Client(Some(b)) = ctx.kind
            && let Some(seq) = data_seq(b)
            && let Some(sel) = ctx.world.last_selected_idx.and_then(|i| ctx.mid.get(i))
        {
            let v = self.carried.entry(sel.conn_id).or_default();
            v.push(seq);
            if v.len() > 48 {
                v.remove(0);
            }
        }

        if let (StepKind::Sighup, Some(text), Some(analysis)) = (ctx.kind, ctx.reload_text, ctx.reload_analysis) {
            let expect: Option<Vec<IpAddr>> = match text {
                None => None,
                Some(t) => {
                    let l = parsable_lines(t);
                    if l.is_empty() { None } else { Some(l) }
                }
            };
            out.probe("c19.sighup");
            match (&expect, analysis) {
                (None, Err(_)) => {
                    out.probe("c19.refused");
                    // nothing is queued and, with no uplink traffic in this step, nothing moved
                    if ctx.world.pending_changes.is_some() && self.pending.is_none() {
                        out.violate(&format!("{M}.refusal"), "queued", ctx.idx, "a refused reload queued connection changes".into());
                    }
                    if ctx.uplink.is_empty() {
                        let a: Vec<String> = ctx.pre.iter().map(|v| format!("{v:?}")).collect();
                        let b: Vec<String> = ctx.post.iter().map(|v| format!("{v:?}")).collect();
                        if a != b {
                            out.violate(&format!("{M}.refusal"), "touched", ctx.idx, "a refused reload changed uplink state".into());
                        }
                    }
                }
                (Some(e), Ok(got)) if e == got => {
                    out.probe("c19.accepted");
                    self.pending = Some(e.clone());
                }
                (e, got) => {
                    out.violate(
                        &format!("{M}.analysis"),
                        if e.is_none() { "should_refuse" } else if got.is_err() { "should_apply" } else { "wrong_list" },
                        ctx.idx,
                        format!("file {:?}: expected {:?}, reload analysis gave {:?}", text, e, got),
                    );
                    self.pending = got.clone().ok();
                }
            }
        }

        let Some(snap) = ctx.reload_snap else { return };
        out.probe("c19.applied");
        if let Some(p) = self.pending.take()
            && p != snap.list
        {
            out.violate(&format!("{M}.apply"), "list", ctx.idx, format!("applied list {:?} is not the accepted list {:?}", snap.list, p));
        }
        let desired: HashSet<IpAddr> = snap.list.iter().copied().collect();
        let survivors: Vec<&(srtla_core::SrtlaConnection, Option<i32>)> =
            snap.before.iter().filter(|(c, _)| desired.contains(&c.local_ip)).collect();
        let removed: Vec<&(srtla_core::SrtlaConnection, Option<i32>)> =
            snap.before.iter().filter(|(c, _)| !desired.contains(&c.local_ip)).collect();
        // survivors: same position order, identity, socket and full state
        for (k, (b, bfd)) in survivors.iter().enumerate() {
            match snap.after.get(k) {
                Some((a, afd)) if a.conn_id == b.conn_id => {
                    if afd != bfd {
                        out.violate(&format!("{M}.survivor"), "socket", ctx.idx, format!("link {:x} kept but its socket changed", b.conn_id));
                    }
                    if format!("{a:?}") != format!("{b:?}") {
                        out.violate(&format!("{M}.survivor"), "state", ctx.idx, format!("link {:x} kept but its protocol state changed", b.conn_id));
                    }
                    if a.batch_sender.queued_count() > 0 || a.in_flight_packets > 0 {
                        out.probe("c19.survivor_mid_stream");
                    }
                }
                other => {
                    out.violate(
                        &format!("{M}.survivor"),
                        "identity",
                        ctx.idx,
                        format!("link {:x} ({}) should survive at position {k}, found {:x?}", b.conn_id, b.local_ip, other.map(|(a, _)| a.conn_id)),
                    );
                }
            }
        }
        // removed: gone from the list, the I/O map and the tracker
        for (r, _) in &removed {
            out.probe("c19.removed");
            if snap.after.iter().any(|(a, _)| a.conn_id == r.conn_id) {
                out.violate(&format!("{M}.removed"), "still_listed", ctx.idx, format!("link {:x} ({}) is no longer listed but still exists", r.conn_id, r.local_ip));
            }
            if snap.io_keys_after.contains(&r.conn_id) {
                out.violate(&format!("{M}.removed"), "io_handle", ctx.idx, format!("I/O handle of removed link {:x} still present", r.conn_id));
            }
            for seq in self.carried.get(&r.conn_id).map(|v| v.as_slice()).unwrap_or(&[]) {
                if ctx.world.seq_tracker.get(*seq, ctx.now) == Some(r.conn_id) {
                    out.violate(&format!("{M}.removed"), "nak_record", ctx.idx, format!("NAK-attribution record for sequence {seq} still names removed link {:x}", r.conn_id));
                    break;
                }
            }
            self.carried.remove(&r.conn_id);
        }
        // additions: each new address once, in file order
        let existing: HashSet<IpAddr> = snap.before.iter().map(|(c, _)| c.local_ip).collect();
        let mut seen = HashSet::new();
        let want_new: Vec<IpAddr> = snap
            .list
            .iter()
            .copied()
            .filter(|ip| !existing.contains(ip) && seen.insert(*ip))
            .collect();
        let got_new: Vec<IpAddr> = snap.after.iter().skip(survivors.len()).map(|(c, _)| c.local_ip).collect();
        let mut wi = 0;
        let mut missing: Vec<IpAddr> = Vec::new();
        let mut ok = true;
        for g in &got_new {
            while wi < want_new.len() && want_new[wi] != *g {
                missing.push(want_new[wi]);
                wi += 1;
            }
            if wi == want_new.len() {
                ok = false;
                break;
            }
            wi += 1;
        }
        missing.extend_from_slice(&want_new[wi.min(want_new.len())..]);
        let unexplained = missing.iter().filter(|ip| ip.is_ipv4()).count() as u64;
        if !ok || unexplained > snap.binds_failed {
            out.violate(
                &format!("{M}.added"),
                "",
                ctx.idx,
                format!("new addresses wanted {:?}, links added {:?} ({} injected bind failures)", want_new, got_new, snap.binds_failed),
            );
        }
        if !got_new.is_empty() {
            out.probe("c19.added");
        }
        for (a, fd) in snap.after.iter().skip(survivors.len()) {
            if a.connected || a.in_flight_packets != 0 || a.window != 20_000 || fd.is_none() {
                out.violate(&format!("{M}.added"), "state", ctx.idx, format!("new link {:x} is not a fresh registering link with a socket", a.conn_id));
            }
        }
        let mut ids: Vec<u64> = snap.after.iter().map(|(a, _)| a.conn_id).collect();
        ids.sort_unstable();
        if ids != snap.io_keys_after {
            out.violate(&format!("{M}.io_map"), "", ctx.idx, "connection list and I/O map disagree after reload".into());
        }
        // routing choice
        if !removed.is_empty() {
            if snap.selected_after.is_some() {
                out.violate(&format!("{M}.selection"), "kept", ctx.idx, "an uplink was removed but the previous routing choice was kept".into());
            }
        } else if snap.selected_after != snap.selected_before {
            out.violate(&format!("{M}.selection"), "changed", ctx.idx, "no uplink was removed but the routing choice changed".into());
        }
    }
}
