//! K-engine checks: generic wrapper plus generators.

use serde_json::Value;

use super::{KCfg, KEv, KMonitor, KPlan};
use crate::common::{Check, RunOutcome, Tier};
use crate::prng::Rng;

pub struct KCheck {
    pub id: &'static str,
    pub level: &'static str,
    pub generate: fn(u64, u64) -> KPlan,
    pub monitors: fn() -> Vec<Box<dyn KMonitor>>,
    pub full_select_obs: bool,
    pub quick_runs: u64,
    pub thorough_runs: u64,
    pub rule: &'static str,
    pub assumptions: &'static [&'static str],
    pub probes: &'static [&'static str],
}

pub const K_REAL: &[&str] = &[
    "srtla-core: SrtlaConnection (all event handlers, stall latch / silence pull, phase machine, keepalive/RTT tracker, batch queue), select_connection_idx with both selectors and apply_stall_gate, quality scoring, CongestionControl (classic + enhanced + time-based recovery), LinkCcController::tick_all, WeakLinkFilter::classify",
];
pub const K_STUB: &[&str] = &[
    "the shell is not part of these runs: the few glue lines that touch core state (REG3 / REG_ERR branches, liveness stamp on inbound bytes, keepalive-echo proof stamp, per-tick stamping of weak / loss_degraded / cc_target_bps, per-link housekeeping calls) are mirrored by the driver",
    "process clock: thread-local virtual clock inside now_ms() (hook H1)",
];

impl Check for KCheck {
    fn id(&self) -> &'static str {
        self.id
    }
    fn engine(&self) -> &'static str {
        "K"
    }
    fn level(&self) -> &'static str {
        self.level
    }
    fn runs(&self, tier: Tier) -> u64 {
        match tier {
            Tier::Quick => self.quick_runs,
            Tier::Thorough => self.thorough_runs,
        }
    }
    fn generate(&self, run_seed: u64, index: u64, _tier: Tier) -> Value {
        (self.generate)(run_seed, index).to_value()
    }
    fn execute(&self, plan: &Value, want_excerpt: bool) -> RunOutcome {
        let plan = match KPlan::from_value(plan) {
            Ok(p) => p,
            Err(e) => panic!("{e}"),
        };
        super::execute(&plan, (self.monitors)(), want_excerpt, self.full_select_obs)
    }
    fn shrink(&self, plan: &Value) -> Vec<Value> {
        match KPlan::from_value(plan) {
            Ok(p) => super::shrink(&p).into_iter().map(|p| p.to_value()).collect(),
            Err(_) => Vec::new(),
        }
    }
    fn rule(&self) -> String {
        self.rule.to_string()
    }
    fn assumptions(&self) -> Vec<String> {
        self.assumptions.iter().map(|s| s.to_string()).collect()
    }
    fn real_components(&self) -> Vec<String> {
        K_REAL.iter().map(|s| s.to_string()).collect()
    }
    fn stub_components(&self) -> Vec<String> {
        K_STUB.iter().map(|s| s.to_string()).collect()
    }
    fn expected_probes(&self) -> Vec<&'static str> {
        self.probes.to_vec()
    }
    fn sample_view(&self, plan: &Value) -> Value {
        let mut v = plan.clone();
        if let Some(a) = v.get_mut("events").and_then(|a| a.as_array_mut())
            && a.len() > 30
        {
            let n = a.len();
            a.truncate(30);
            a.push(serde_json::json!(format!("... {} more events", n - 30)));
        }
        v
    }
}

pub fn gen_cfg(r: &mut Rng) -> KCfg {
    KCfg {
        classic: r.chance(0.35),
        quality: r.chance(0.7),
        stall_guard: r.chance(0.8),
        stall_min_in_flight: *r.pick(&[1i32, 2, 4, 8, 16, 32, 32, 64, 200]),
        stall_ack_stale_ms: *r.pick(&[100u64, 300, 800, 999, 1000, 1001, 1500, 3000, 3000, 6000, 20_000]),
        conn_timeout_ms: *r.pick(&[1000u64, 1001, 2500, 5000, 5000, 5000, 15_000, 60_000]),
    }
}

pub fn time_base(r: &mut Rng) -> u64 {
    1_000_000_000 + r.range(0, 1_000_000_000_000)
}

fn adv(r: &mut Rng) -> KEv {
    let ms = match r.below(10) {
        0 => 0,
        1 => 1,
        2 => r.range(2, 20),
        3 => r.range(20, 300),
        4 => r.range(300, 1100),
        5 => *r.pick(&[499u64, 500, 501, 999, 1000, 1001, 1999, 2000, 2001, 2999, 3000, 3001, 4999, 5000, 5001]),
        6 => r.range(1000, 12_000),
        7 => r.range(10_000, 70_000),
        _ => r.range(1, 100),
    };
    KEv::Advance { ms }
}

/// C06: timed histories of ACK / NAK / recovery / reset events.
pub fn gen_c06(seed: u64, _index: u64) -> KPlan {
    let mut r = Rng::new(seed ^ 0xC06);
    let n_links = r.range(1, 3) as usize;
    let cfg = gen_cfg(&mut r);
    let mut events = Vec::new();
    for l in 0..n_links {
        events.push(KEv::Reg3 { link: l });
        if r.chance(0.6) {
            events.push(KEv::SetWindow { link: l, window: *r.pick(&[1000, 1001, 1099, 1100, 2000, 2001, 2100, 11_971, 11_999, 12_000, 20_000, 59_971, 59_972, 59_999, 60_000]) });
        } else if r.chance(0.5) {
            events.push(KEv::SetWindow { link: l, window: r.range(1000, 60_000) as i32 });
        }
    }
    let len = r.range(20, 300);
    // bias per run so that long one-directional walks happen
    let nak_bias = *r.pick(&[0.05, 0.2, 0.5, 0.8]);
    for _ in 0..len {
        let link = r.below(n_links as u64) as usize;
        let ev = match r.below(14) {
            0 | 1 => adv(&mut r),
            2 => KEv::Send { link, n: r.range(1, 80) as u32 },
            3 | 4 => {
                if r.chance(nak_bias) {
                    KEv::Nak { link, pick: r.below(1000) as u32 }
                } else {
                    KEv::SrtlaAck { link, pick: r.below(1000) as u32 }
                }
            }
            5 => KEv::AckRule {
                link,
                in_flight: *r.pick(&[0i32, 1, 2, 19, 20, 21, 59, 60, 61, 1000, 2_147_483, 2_147_484, i32::MAX / 2, i32::MAX - 1, i32::MAX]),
                classic: r.chance(0.5),
            },
            6 => KEv::Nak { link, pick: r.below(1000) as u32 },
            7 => KEv::Recovery { link, velocity_milli: *r.pick(&[-5000i64, -1, 0, 1, 1999, 2000, 2001, 50_000]) },
            8 => KEv::Tick { links_mask: 0xF },
            9 => KEv::CumAck { permille: r.range(0, 1100) as u32 },
            10 => match r.below(4) {
                0 => KEv::MarkForRecovery { link },
                1 => KEv::Reconnect { link },
                2 => KEv::Reg3 { link },
                _ => KEv::RegErr { link },
            },
            11 => KEv::SetCfg { cfg: gen_cfg(&mut r) },
            12 => KEv::RttSample { link, rtt: *r.pick(&[1u64, 20, 50, 200, 800, 3000, 10_000]) },
            _ => KEv::Send { link, n: r.range(1, 10) as u32 },
        };
        events.push(ev);
        // NAK bursts (< 1 s apart)
        if r.chance(0.08) {
            for _ in 0..r.range(2, 12) {
                events.push(KEv::Advance { ms: r.range(0, 400) });
                events.push(KEv::Nak { link, pick: r.below(1000) as u32 });
            }
        }
        // fast-recovery exit band: enter fast recovery at the floor, then walk the window
        // through the band just under 12000 with recovery ticks at every RTT velocity
        if r.chance(0.06) {
            events.push(KEv::SetWindow { link, window: r.range(1000, 2100) as i32 });
            events.push(KEv::Send { link, n: 3 });
            events.push(KEv::Nak { link, pick: 0 });
            events.push(KEv::SetWindow { link, window: r.range(11_700, 12_010) as i32 });
            events.push(KEv::Advance { ms: *r.pick(&[600u64, 2_100, 5_100, 7_100, 11_000]) });
            for _ in 0..r.range(1, 8) {
                events.push(KEv::Recovery { link, velocity_milli: *r.pick(&[0i64, 1999, 2001, 2001, 50_000]) });
                events.push(KEv::Advance { ms: *r.pick(&[301u64, 501, 1001]) });
                if r.chance(0.3) {
                    events.push(KEv::SetWindow { link, window: r.range(11_850, 11_999) as i32 });
                }
            }
        }
        // fast recovery still flagged just under the cap (reached in the field through a classic
        // phase, whose ACK path never clears the flag, or on a link that only ever collects NAKs
        // while the global increment inflates its window): time-based recovery steps there
        if r.chance(0.05) {
            events.push(KEv::SetWindow { link, window: r.range(1000, 2100) as i32 });
            events.push(KEv::Send { link, n: 3 });
            events.push(KEv::Nak { link, pick: 0 });
            events.push(KEv::SetWindow { link, window: *r.pick(&[59_871, 59_880, 59_941, 59_970, 59_985, 59_993, 59_999, 60_000]) });
            for _ in 0..r.range(1, 6) {
                events.push(KEv::Advance { ms: *r.pick(&[501u64, 600, 2_100, 5_100, 7_100, 11_000]) });
                if r.chance(0.5) {
                    events.push(KEv::Recovery { link, velocity_milli: *r.pick(&[-1i64, 0, 1999, 2001]) });
                } else {
                    events.push(KEv::Tick { links_mask: 0xF });
                }
            }
        }
        // stacked recovery ticks
        if r.chance(0.05) {
            for _ in 0..r.range(2, 40) {
                events.push(KEv::Advance { ms: *r.pick(&[301u64, 501, 1001, 2001, 11_000]) });
                events.push(KEv::Recovery { link, velocity_milli: 0 });
            }
        }
    }
    KPlan { seed, time_base_ms: time_base(&mut r), n_links, cfg, events }
}

/// Selection world: link-state x gate x config histories with routing decisions.
pub fn gen_select(seed: u64, index: u64) -> KPlan {
    let mut r = Rng::new(seed ^ 0x5E1);
    let n_links = if index % 4 == 0 { r.range(2, 3) } else { r.range(1, 4) } as usize;
    let mut cfg = gen_cfg(&mut r);
    if index % 3 != 0 {
        cfg.stall_guard = true;
        cfg.stall_min_in_flight = *r.pick(&[1i32, 2, 4, 8, 16, 32]);
    }
    let initial_cfg = cfg.clone();
    let mut events = Vec::new();
    // bring most links up, give some an RTT baseline
    for l in 0..n_links {
        if r.chance(0.9) {
            events.push(KEv::Reg3 { link: l });
        }
        match r.below(4) {
            0 => {}
            _ => {
                let rtt = *r.pick(&[20u64, 50, 120, 249, 250, 251, 400, 800, 2000]);
                for _ in 0..r.range(1, 4) {
                    events.push(KEv::RttSample { link: l, rtt });
                }
            }
        }
        if r.chance(0.3) {
            events.push(KEv::SetWindow { link: l, window: r.range(1000, 60_000) as i32 });
        }
    }
    let len = r.range(30, 260);
    for _ in 0..len {
        let link = r.below(n_links as u64) as usize;
        let ev = match r.below(24) {
            0..=3 => adv(&mut r),
            4..=7 => KEv::Route {
                n: *r.pick(&[1u32, 1, 2, 5, 17, 40, 120]),
                last_override: match r.below(8) {
                    0 => Some(-1),
                    1 => Some(r.below(6) as i64),
                    _ => None,
                },
            },
            8 => {
                if r.chance(0.15) {
                    // a backlog larger than the window: capacity score 0
                    events.push(KEv::SetWindow { link, window: *r.pick(&[1000, 1000, 1500, 3000]) });
                    KEv::Send { link, n: r.range(1000, 3300) as u32 }
                } else {
                    KEv::Send { link, n: r.range(1, 300) as u32 }
                }
            }
            9 | 10 => KEv::SrtlaAck { link, pick: r.below(1000) as u32 },
            11 => KEv::Inbound { link },
            12 => KEv::CumAck { permille: r.range(0, 1100) as u32 },
            13 => KEv::Nak { link, pick: r.below(1000) as u32 },
            14 => {
                events.push(KEv::KeepaliveSend { link });
                events.push(KEv::Advance { ms: r.range(1, 900) });
                KEv::KeepaliveEcho { link, age: r.range(1, 900) }
            }
            15 => KEv::SetGlue {
                link,
                weak: r.chance(0.4),
                loss_degraded: r.chance(0.3),
                cc_target_bps: *r.pick(&[0u64, 0, 100_000, 100_000, 1_000_000, 8_000_000, 200_000_000]),
            },
            16 => KEv::SetMeasured {
                link,
                bitrate_bps: *r.pick(&[0u64, 50_000, 99_000, 900_000, 1_000_000, 5_000_000, 50_000_000]),
                add_bytes: r.range(0, 2_000_000),
                add_naks: 0,
            },
            17 => match r.below(5) {
                0 => KEv::MarkForRecovery { link },
                1 => KEv::Reconnect { link },
                2 => KEv::RegErr { link },
                _ => KEv::Reg3 { link },
            },
            18 => {
                let mut c = gen_cfg(&mut r);
                if r.chance(0.5) {
                    // toggle only the guard
                    c = cfg.clone();
                    c.stall_guard = !cfg.stall_guard;
                }
                cfg = c.clone();
                KEv::SetCfg { cfg: c }
            }
            19 => KEv::RttSample { link, rtt: *r.pick(&[5u64, 20, 60, 200, 500, 1200, 2500]) },
            20 => KEv::Tick { links_mask: 0xF },
            21 => KEv::Flush,
            _ => KEv::Route { n: 1, last_override: None },
        };
        events.push(ev);
        // standing queue on one link: a low RTT floor, then a long run of elevated samples (the
        // recent floor lifts while the long-term one remembers), a published CC target and a
        // backlog between the two in-flight caps
        if r.chance(0.05) {
            let l = link;
            let low = *r.pick(&[20u64, 40, 60]);
            for _ in 0..r.range(18, 45) {
                events.push(KEv::RttSample { link: l, rtt: low + r.range(0, 4) });
            }
            let high = low * r.range(3, 6);
            for _ in 0..r.range(26, 45) {
                events.push(KEv::RttSample { link: l, rtt: high + r.range(0, 9) });
            }
            events.push(KEv::SetGlue { link: l, weak: false, loss_degraded: false, cc_target_bps: *r.pick(&[1_000_000u64, 4_000_000, 8_000_000]) });
            events.push(KEv::Inbound { link: l });
            events.push(KEv::Send { link: l, n: r.range(5, 140) as u32 });
            for other in 0..n_links {
                if other != l {
                    events.push(KEv::Inbound { link: other });
                }
            }
            events.push(KEv::Route { n: r.range(1, 6) as u32, last_override: Some(l as i64) });
            events.push(KEv::Route { n: r.range(1, 6) as u32, last_override: None });
        }
        // tempting traces for the latch: backlog, proof, silence, then closely spaced selects
        if r.chance(0.10) {
            let l = link;
            events.push(KEv::Send { link: l, n: r.range(1, 200) as u32 });
            if r.chance(0.8) {
                events.push(KEv::SrtlaAck { link: l, pick: 0 });
            }
            let quiet = *r.pick(&[200u64, 260, 600, 999, 1000, 1001, 1600, 3000, 3100, 6500]);
            events.push(KEv::Advance { ms: quiet });
            for other in 0..n_links {
                if other != l && r.chance(0.8) {
                    events.push(KEv::Inbound { link: other });
                    events.push(KEv::SrtlaAck { link: other, pick: 0 });
                }
            }
            events.push(KEv::Route { n: r.range(1, 4) as u32, last_override: None });
            // recovery attempts: single ACK, drained backlog, sustained proof with / without a lapse
            match r.below(4) {
                0 => {
                    events.push(KEv::SrtlaAck { link: l, pick: 0 });
                    events.push(KEv::Route { n: 1, last_override: None });
                }
                1 => {
                    events.push(KEv::CumAck { permille: 1100 });
                    events.push(KEv::Route { n: 2, last_override: None });
                }
                _ => {
                    let step = *r.pick(&[100u64, 300, 700, 990, 1010]);
                    let lapse_at = if r.chance(0.4) { Some(r.range(1, 12)) } else { None };
                    for k in 0..r.range(3, 30) {
                        events.push(KEv::Advance { ms: step });
                        if lapse_at != Some(k) {
                            events.push(KEv::Send { link: l, n: 1 });
                            events.push(KEv::SrtlaAck { link: l, pick: 0 });
                        } else {
                            events.push(KEv::Advance { ms: *r.pick(&[900u64, 1100, 3100]) });
                        }
                        for other in 0..n_links {
                            if other != l {
                                events.push(KEv::Inbound { link: other });
                            }
                        }
                        events.push(KEv::Route { n: 1, last_override: None });
                    }
                }
            }
        }
    }
    KPlan { seed, time_base_ms: time_base(&mut r), n_links, cfg: initial_cfg, events }
}


/// C16: timed RTT / byte / NAK / bitrate histories for the CC controller.
pub fn gen_c16(seed: u64, _index: u64) -> KPlan {
    let mut r = Rng::new(seed ^ 0xC16);
    let n_links = r.range(1, 3) as usize;
    let cfg = gen_cfg(&mut r);
    let mut events = Vec::new();
    for l in 0..n_links {
        events.push(KEv::Reg3 { link: l });
    }
    let len = r.range(30, 250);
    // per-run regime so that long episodes (sustained loss, sustained inflation, starvation) occur
    let regime = r.below(6);
    let mut base_rate: u64 = *r.pick(&[0u64, 50_000, 300_000, 2_000_000, 8_000_000, 60_000_000]);
    let base_rtt: u64 = *r.pick(&[10u64, 40, 120, 400]);
    for k in 0..len {
        let link = r.below(n_links as u64) as usize;
        // measured inputs for this tick
        let rate = match r.below(10) {
            0 => 0,
            1 => base_rate.saturating_mul(100),
            2 => base_rate / 3,
            _ => base_rate,
        };
        let pkts = rate / 8 / 1316 + 1;
        let naks = match regime {
            0 => 0,
            1 => (pkts / 50) as u32 + r.chance(0.5) as u32,
            2 => (pkts * r.range(40, 100) / 100) as u32,
            3 => if (k / 12) % 2 == 0 { (pkts * 8 / 10) as u32 } else { 0 },
            _ => if r.chance(0.2) { r.range(1, 60) as u32 } else { 0 },
        };
        if r.chance(0.06) {
            // counters restart (re-registration) while the controller's state for the link lives on
            events.push(KEv::ResetCounters { link });
        }
        for l in 0..n_links {
            if l == link || r.chance(0.6) {
                events.push(KEv::SetMeasured { link: l, bitrate_bps: rate, add_bytes: pkts * 1316, add_naks: naks });
            }
        }
        let rtt = match regime {
            4 => base_rtt * *r.pick(&[1u64, 1, 2, 3, 5]),
            5 => if (k / 9) % 2 == 0 { base_rtt } else { base_rtt * 3 },
            _ => base_rtt + r.range(0, base_rtt / 4 + 1),
        };
        if r.chance(0.85) {
            for _ in 0..r.range(1, 4) {
                events.push(KEv::RttSample { link, rtt: rtt.clamp(1, 10_000) });
            }
        }
        events.push(KEv::Advance {
            ms: match r.below(12) {
                0 => 1,
                1 => r.range(2, 200),
                2 => r.range(2000, 10_000),
                3 => *r.pick(&[249u64, 250, 499, 500, 999, 1000, 1001, 1999, 2000]),
                _ => 1000,
            },
        });
        let mask = if r.chance(0.08) { r.below(16) as u32 } else { 0xF };
        events.push(KEv::Tick { links_mask: mask });
        if r.chance(0.03) {
            events.push(KEv::Reconnect { link });
            events.push(KEv::Reg3 { link });
        }
        // the link spends one or more housekeeping ticks disconnected (timed out, re-registering)
        // before it is re-established: the controller's state for it lives on meanwhile
        if r.chance(0.04) {
            events.push(if r.chance(0.5) { KEv::Reconnect { link } } else { KEv::MarkForRecovery { link } });
            for _ in 0..r.range(1, 4) {
                events.push(KEv::Advance { ms: 1000 });
                events.push(KEv::Tick { links_mask: 0xF });
            }
            events.push(KEv::Reg3 { link });
        }
        if r.chance(0.05) {
            base_rate = *r.pick(&[0u64, 50_000, 300_000, 2_000_000, 8_000_000, 60_000_000]);
        }
    }
    KPlan { seed, time_base_ms: time_base(&mut r), n_links, cfg, events }
}

/// C17: tick-by-tick bitrate / RTT / connectivity histories for the classifier.
pub fn gen_c17(seed: u64, _index: u64) -> KPlan {
    let mut r = Rng::new(seed ^ 0xC17);
    let n_links = r.range(1, 4) as usize;
    let cfg = gen_cfg(&mut r);
    let mut events = Vec::new();
    for l in 0..n_links {
        if r.chance(0.9) {
            events.push(KEv::Reg3 { link: l });
        }
    }
    let mut rates: Vec<u64> = (0..n_links).map(|_| *r.pick(&[0u64, 20_000, 80_000, 400_000, 2_000_000, 6_000_000])).collect();
    let mut rtts: Vec<u64> = (0..n_links).map(|_| *r.pick(&[20u64, 60, 150, 400, 900])).collect();
    let len = r.range(30, 220);
    for _ in 0..len {
        for l in 0..n_links {
            // mostly steady, occasional blips and regime changes
            let blip = r.chance(0.06);
            if r.chance(0.05) {
                rates[l] = *r.pick(&[0u64, 20_000, 60_000, 120_000, 400_000, 2_000_000, 6_000_000]);
            }
            if r.chance(0.04) {
                rtts[l] = *r.pick(&[20u64, 60, 150, 400, 900, 2500]);
            }
            let rate = if r.chance(0.05) { 0 } else { rates[l] };
            events.push(KEv::SetMeasured { link: l, bitrate_bps: rate, add_bytes: rate / 8, add_naks: 0 });
            let rtt = if blip { rtts[l] * 6 } else { rtts[l] + r.range(0, rtts[l] / 10 + 1) };
            for _ in 0..r.range(0, 3) {
                events.push(KEv::RttSample { link: l, rtt: rtt.clamp(1, 10_000) });
            }
        }
        events.push(KEv::Advance { ms: 1000 });
        let mask = if r.chance(0.05) { r.below(16) as u32 } else { 0xF };
        events.push(KEv::Tick { links_mask: mask });
        if r.chance(0.04) {
            let link = r.below(n_links as u64) as usize;
            events.push(match r.below(3) {
                0 => KEv::RegErr { link },
                1 => KEv::Reconnect { link },
                _ => KEv::Reg3 { link },
            });
        }
    }
    KPlan { seed, time_base_ms: time_base(&mut r), n_links, cfg, events }
}

/// C02: direct accounting histories with explicit sequence numbers.
pub fn gen_c02(seed: u64, _index: u64) -> KPlan {
    let mut r = Rng::new(seed ^ 0xC02);
    let n_links = r.range(1, 4) as usize;
    let cfg = gen_cfg(&mut r);
    let mut events = Vec::new();
    for l in 0..n_links {
        events.push(KEv::Reg3 { link: l });
    }
    // a window of the 31-bit space that does not wrap
    let base: i64 = match r.below(4) {
        0 => 0,
        1 => r.range(0, 1 << 20) as i64,
        2 => (1i64 << 31) - 400_000,
        _ => r.range(0, (1u64 << 31) - 400_000) as i64,
    };
    let mut head: i64 = 0; // next fresh offset
    let mut acked: i64 = -1;
    let len = r.range(20, 200);
    for _ in 0..len {
        let link = r.below(n_links as u64) as usize;
        let near = |r: &mut Rng, head: i64| -> i64 {
            match r.below(5) {
                0 => r.range(0, (head + 1) as u64) as i64,
                1 => (head - r.range(0, 70) as i64).max(0),
                _ => (head - r.range(0, 12) as i64).max(0),
            }
        };
        match r.below(12) {
            0..=3 => {
                // fresh packets, sometimes with strides and jumps
                for _ in 0..r.range(1, 20) {
                    events.push(KEv::Register { link: r.below(n_links as u64) as usize, seq: (base + head) as i32 });
                    head += match r.below(20) {
                        0 => r.range(2, 70) as i64,
                        1 => r.range(70, 3000) as i64,
                        _ => 1,
                    };
                }
            }
            4 => {
                // retransmission of an old number (possibly already passed by the cumulative ACK), maybe on another link
                let off = near(&mut r, head);
                events.push(KEv::Register { link, seq: (base + off) as i32 });
            }
            5 | 6 => {
                // cumulative ACK: in order, duplicate, stale, or far ahead
                let off = match r.below(6) {
                    0 => acked,
                    1 => (acked - r.range(1, 100) as i64).max(-1),
                    2 => head + r.range(0, 200) as i64,
                    3 => (acked + r.range(65, 400) as i64).min(head + 10),
                    _ => (acked + r.range(1, 64) as i64).min(head),
                };
                if off >= 0 {
                    events.push(KEv::CumAckSeq { seq: (base + off) as i32 });
                    acked = acked.max(off);
                }
            }
            7 | 8 => {
                let off = near(&mut r, head);
                events.push(KEv::SrtlaAckSeq { link, seq: (base + off) as i32 });
            }
            9 => {
                let off = near(&mut r, head);
                events.push(KEv::NakSeq { link, seq: (base + off) as i32 });
                if r.chance(0.3) {
                    events.push(KEv::NakSeq { link, seq: (base + off) as i32 });
                }
            }
            10 => events.push(match r.below(3) {
                0 => KEv::MarkForRecovery { link },
                1 => KEv::Reconnect { link },
                _ => KEv::Reg3 { link },
            }),
            _ => events.push(adv(&mut r)),
        }
    }
    KPlan { seed, time_base_ms: time_base(&mut r), n_links, cfg, events }
}
