//! Engine K — core timed-history simulation.
//!
//! Drives the sans-IO core directly: a generated timed history of events on
//! 1..4 real `SrtlaConnection`s under a virtual clock, with the real selectors,
//! `LinkCcController` and `WeakLinkFilter`. State is built through the real
//! event API; direct writes are limited to the inputs the loop glue itself
//! writes, consistent time stamps, and measured quantities (listed per check).

pub mod c02;
pub mod c06;
pub mod cc;
pub mod sel;
pub mod checks;

use std::collections::HashMap;
use std::net::{IpAddr, Ipv4Addr};

use serde::{Deserialize, Serialize};
use srtla_core::connection::{LinkPhase, SrtlaConnection};
use srtla_core::selection::classifier::{ClassificationResult, WeakLinkFilter};
use srtla_core::selection::link_cc::{LinkCcController, LinkCcSnapshot};
use srtla_core::selection::select_connection_idx;
use srtla_core::verif_hooks as core_hooks;
use srtla_core::{ConfigSnapshot, SchedulingMode};

use crate::common::{RunOutcome, Stats};
use crate::lsim::MonOut;
use crate::prng::LogHash;

#[derive(Clone, Debug, Serialize, Deserialize, PartialEq)]
pub struct KCfg {
    pub classic: bool,
    pub quality: bool,
    pub stall_guard: bool,
    pub stall_min_in_flight: i32,
    pub stall_ack_stale_ms: u64,
    pub conn_timeout_ms: u64,
}

impl KCfg {
    pub fn snapshot(&self) -> ConfigSnapshot {
        ConfigSnapshot {
            mode: if self.classic { SchedulingMode::Classic } else { SchedulingMode::Enhanced },
            quality_enabled: self.quality,
            stall_deselect: self.stall_guard,
            stall_min_in_flight: self.stall_min_in_flight,
            stall_ack_stale_ms: self.stall_ack_stale_ms,
            conn_timeout_ms: self.conn_timeout_ms,
        }
    }
}

#[derive(Clone, Debug, Serialize, Deserialize, PartialEq)]
pub enum KEv {
    Advance { ms: u64 },
    /// REG3 on the link (mirror of the shell's REG3 branch).
    Reg3 { link: usize },
    /// REG_ERR on the link (mirror of the shell's REG_ERR branch).
    RegErr { link: usize },
    /// Route `n` data packets: real select, queue on the chosen link, flush at threshold.
    Route { n: u32, last_override: Option<i64> },
    /// Queue and flush `n` packets directly on a link (pre-loaded backlog).
    Send { link: usize, n: u32 },
    Flush,
    /// Earned SRTLA ACK for an outstanding packet of the link (+ global increment on all).
    SrtlaAck { link: usize, pick: u32 },
    /// Raw ACK-rule call with an arbitrary in-flight argument.
    AckRule { link: usize, in_flight: i32, classic: bool },
    /// Cumulative ACK up to a fraction of what has been sent.
    CumAck { permille: u32 },
    Nak { link: usize, pick: u32 },
    /// Any inbound non-registration datagram: liveness stamp only.
    Inbound { link: usize },
    KeepaliveSend { link: usize },
    /// Echo of a keepalive stamped `age` ms ago.
    KeepaliveEcho { link: usize, age: u64 },
    RttSample { link: usize, rtt: u64 },
    /// Housekeeping per-link calls + classifier + CC tick + stamping (mirror of the glue).
    Tick { links_mask: u32 },
    /// Time-based recovery call with an arbitrary RTT velocity.
    Recovery { link: usize, velocity_milli: i64 },
    MarkForRecovery { link: usize },
    Reconnect { link: usize },
    SetCfg { cfg: KCfg },
    /// Inputs the loop glue writes onto a link.
    SetGlue { link: usize, weak: bool, loss_degraded: bool, cc_target_bps: u64 },
    /// Measured quantities that traffic can drive anywhere.
    SetMeasured { link: usize, bitrate_bps: u64, add_bytes: u64, add_naks: u32 },
    SetWindow { link: usize, window: i32 },
    /// Counter reset as a reconnect does it (loss counters and byte counters restart).
    ResetCounters { link: usize },
    /// Direct accounting events with explicit sequence numbers (C02 histories).
    Register { link: usize, seq: i32 },
    CumAckSeq { seq: i32 },
    SrtlaAckSeq { link: usize, seq: i32 },
    NakSeq { link: usize, seq: i32 },
}

#[derive(Clone, Debug, Serialize, Deserialize, PartialEq)]
pub struct KPlan {
    pub seed: u64,
    pub time_base_ms: u64,
    pub n_links: usize,
    pub cfg: KCfg,
    pub events: Vec<KEv>,
}

impl KPlan {
    pub fn to_value(&self) -> serde_json::Value {
        serde_json::to_value(self).expect("plan serialises")
    }
    pub fn from_value(v: &serde_json::Value) -> Result<KPlan, String> {
        serde_json::from_value(v.clone()).map_err(|e| format!("bad K plan: {e}"))
    }
}

/// What one event did, for the monitors.
#[derive(Default)]
pub struct KEffect {
    /// Route / select results: (last_idx passed, result) per routed packet.
    pub selects: Vec<SelectObs>,
    pub tick: Option<TickObs>,
    /// (link, seq) pairs the event acted on.
    pub acked: Vec<(usize, i32, bool)>,
    pub naked: Vec<(usize, i32, bool)>,
    pub echo_sampled: Option<bool>,
}

pub struct SelectObs {
    pub last: Option<usize>,
    pub result: Option<usize>,
    pub pre: Vec<SrtlaConnection>,
    pub post: Vec<SrtlaConnection>,
    pub now: u64,
    pub cfg: ConfigSnapshot,
}

pub struct TickObs {
    pub mask: u32,
    pub classification: ClassificationResult,
    pub cc: HashMap<u64, LinkCcSnapshot>,
    pub cc_prev: HashMap<u64, LinkCcSnapshot>,
    /// Per link in the mask: inputs of this tick.
    pub inputs: Vec<TickInput>,
}

#[derive(Clone, Debug)]
pub struct TickInput {
    pub conn_id: u64,
    pub connected: bool,
    pub bitrate_bps: f64,
    pub srtt: f64,
    pub bytes_total: u64,
    pub nak_total: i32,
    pub queue_building: bool,
}

pub struct KWorld {
    pub conns: Vec<SrtlaConnection>,
    pub now: u64,
    pub cfg: KCfg,
    pub last: Option<usize>,
    pub next_seq: i32,
    pub first_seq: i32,
    pub weak_filter: WeakLinkFilter,
    pub cc: LinkCcController,
    pub cc_prev: HashMap<u64, LinkCcSnapshot>,
}

pub struct KCtx<'a> {
    pub idx: u64,
    pub now: u64,
    pub ev: &'a KEv,
    pub pre: &'a [SrtlaConnection],
    pub world: &'a KWorld,
    pub eff: &'a KEffect,
    pub cfg_pre: &'a KCfg,
}

pub trait KMonitor {
    fn on_start(&mut self, _w: &KWorld) {}
    fn on_event(&mut self, ctx: &KCtx<'_>, out: &mut MonOut);
    fn on_finish(&mut self, _w: &KWorld, _out: &mut MonOut) {}
}

fn link_ip(i: usize) -> IpAddr {
    IpAddr::V4(Ipv4Addr::new(10, 0, 0, (i + 1) as u8))
}

impl KWorld {
    pub fn new(plan: &KPlan) -> KWorld {
        core_hooks::set_clock(Some(plan.time_base_ms));
        let conns = (0..plan.n_links)
            .map(|i| SrtlaConnection::new_registering(0x1000 + i as u64, format!("k{i}"), link_ip(i), plan.time_base_ms))
            .collect();
        KWorld {
            conns,
            now: plan.time_base_ms,
            cfg: plan.cfg.clone(),
            last: None,
            next_seq: 1000,
            first_seq: 1000,
            weak_filter: WeakLinkFilter::new(),
            cc: LinkCcController::new(),
            cc_prev: HashMap::new(),
        }
    }

    fn data(seq: i32) -> [u8; 32] {
        let mut b = [0u8; 32];
        b[..4].copy_from_slice(&(seq as u32).to_be_bytes());
        b
    }

    pub fn apply(&mut self, ev: &KEv, want_pre_in_select: bool) -> KEffect {
        let mut eff = KEffect::default();
        let n = self.conns.len();
        let now = self.now;
        match ev {
            KEv::Advance { ms } => {
                self.now += *ms;
                core_hooks::set_clock(Some(self.now));
            }
            KEv::Reg3 { link } => {
                if let Some(c) = self.conns.get_mut(*link % n) {
                    c.clear_pre_registration_state(now);
                    c.connected = true;
                    c.last_received = Some(now);
                    if c.reconnection.connection_established_ms == 0 {
                        c.reconnection.connection_established_ms = now;
                    }
                    let label = c.label.clone();
                    c.reconnection.mark_success(&label);
                }
            }
            KEv::RegErr { link } => {
                if let Some(c) = self.conns.get_mut(*link % n) {
                    c.connected = false;
                    c.last_received = None;
                }
            }
            KEv::Route { n: count, last_override } => {
                for k in 0..*count {
                    let cfg = self.cfg.snapshot();
                    let last = match (k, last_override) {
                        (0, Some(v)) => {
                            if *v < 0 { None } else { Some(*v as usize) }
                        }
                        _ => self.last,
                    };
                    let pre = if want_pre_in_select { self.conns.clone() } else { Vec::new() };
                    let result = select_connection_idx(&mut self.conns, last, now, &cfg);
                    let post = if want_pre_in_select { self.conns.clone() } else { Vec::new() };
                    eff.selects.push(SelectObs { last, result, pre, post, now, cfg });
                    if let Some(i) = result
                        && i < self.conns.len()
                    {
                        self.last = Some(i);
                        let seq = self.next_seq;
                        self.next_seq += 1;
                        let c = &mut self.conns[i];
                        if c.queue_data_packet(&Self::data(seq), Some(seq as u32), now) {
                            let _ = c.take_batch(now);
                        }
                    }
                }
            }
            KEv::Send { link, n: count } => {
                let i = *link % n;
                for _ in 0..*count {
                    let seq = self.next_seq;
                    self.next_seq += 1;
                    let c = &mut self.conns[i];
                    if c.queue_data_packet(&Self::data(seq), Some(seq as u32), now) {
                        let _ = c.take_batch(now);
                    }
                }
                let _ = self.conns[i].take_batch(now);
            }
            KEv::Flush => {
                for c in self.conns.iter_mut() {
                    if c.has_queued_packets() {
                        let _ = c.take_batch(now);
                    }
                }
            }
            KEv::SrtlaAck { link, pick } => {
                let i = *link % n;
                // the ACK datagram itself is inbound traffic on the link
                self.conns[i].last_received = Some(now);
                let keys = self.conns[i].verif_packet_log_keys();
                if !keys.is_empty() {
                    let seq = keys[*pick as usize % keys.len()];
                    let classic = self.cfg.classic;
                    let found = self.conns[i].handle_srtla_ack_specific(seq, classic, now);
                    eff.acked.push((i, seq, found));
                }
                for c in self.conns.iter_mut() {
                    c.handle_srtla_ack_global();
                }
            }
            KEv::AckRule { link, in_flight, classic } => {
                let i = *link % n;
                let c = &mut self.conns[i];
                let label = c.label.clone();
                if *classic {
                    c.congestion.handle_srtla_ack_specific_classic(&mut c.window, *in_flight, 0, &label);
                } else {
                    c.congestion.handle_srtla_ack_enhanced(&mut c.window, *in_flight, &label, now);
                }
            }
            KEv::CumAck { permille } => {
                let span = (self.next_seq - self.first_seq) as i64;
                let ack = self.first_seq as i64 + span * (*permille as i64).min(1100) / 1000;
                for c in self.conns.iter_mut() {
                    c.handle_srt_ack(ack as i32, now);
                }
            }
            KEv::Nak { link, pick } => {
                let i = *link % n;
                let keys = self.conns[i].verif_packet_log_keys();
                if !keys.is_empty() {
                    let seq = keys[*pick as usize % keys.len()];
                    let found = self.conns[i].handle_nak(seq, now);
                    eff.naked.push((i, seq, found));
                }
            }
            KEv::Inbound { link } => {
                let c = &mut self.conns[*link % n];
                c.last_received = Some(now);
            }
            KEv::KeepaliveSend { link } => {
                let c = &mut self.conns[*link % n];
                let _ = c.keepalive_packet(now);
            }
            KEv::KeepaliveEcho { link, age } => {
                let c = &mut self.conns[*link % n];
                c.last_received = Some(now);
                let pkt = srtla_protocol::create_keepalive_packet(now.saturating_sub(*age));
                let label = c.label.clone();
                let sampled = c.rtt.handle_keepalive_response(&pkt, &label, now).is_some();
                if sampled {
                    c.record_rtt_probe();
                    c.last_ack_or_rtt_sample_ms = now;
                }
                eff.echo_sampled = Some(sampled);
            }
            KEv::RttSample { link, rtt } => {
                let c = &mut self.conns[*link % n];
                if *rtt > 0 && *rtt <= 10_000 {
                    c.rtt.update_estimate(*rtt, now);
                }
            }
            KEv::Tick { links_mask } => {
                let classic = self.cfg.classic;
                for c in self.conns.iter_mut() {
                    if c.is_timed_out(now) {
                        continue;
                    }
                    if !classic {
                        c.perform_window_recovery(now);
                    }
                    c.calculate_bitrate(now);
                    c.update_phase(now);
                    c.recompute_batch_regime();
                }
                // links present at this tick (links may appear and disappear for the controllers)
                let present: Vec<SrtlaConnection> = self
                    .conns
                    .iter()
                    .enumerate()
                    .filter(|(i, _)| links_mask & (1 << i) != 0)
                    .map(|(_, c)| c.clone())
                    .collect();
                let inputs: Vec<TickInput> = present
                    .iter()
                    .map(|c| TickInput {
                        conn_id: c.conn_id,
                        connected: c.connected,
                        bitrate_bps: c.bitrate.current_bitrate_bps,
                        srtt: c.get_smooth_rtt_ms(),
                        bytes_total: c.bitrate.bytes_sent_total,
                        nak_total: c.total_nak_count(),
                        queue_building: c.queue_building_suspected(),
                    })
                    .collect();
                let classification = self.weak_filter.classify(&present);
                let cc = self.cc.tick_all(&present, now);
                for c in self.conns.iter_mut() {
                    c.weak = classification.per_link.iter().find(|e| e.conn_id == c.conn_id).map(|e| e.weak).unwrap_or(false);
                    let s = cc.get(&c.conn_id);
                    c.cc_backing_off = s.map(|s| s.state == srtla_core::selection::link_cc::CcState::BackingOff).unwrap_or(false);
                    c.cc_target_bps = s.map(|s| s.target_bps).unwrap_or(0);
                    c.loss_degraded = s.map(|s| s.loss_degraded).unwrap_or(false);
                }
                let cc_prev = std::mem::replace(&mut self.cc_prev, cc.clone());
                eff.tick = Some(TickObs { mask: *links_mask, classification, cc, cc_prev, inputs });
            }
            KEv::Recovery { link, velocity_milli } => {
                let c = &mut self.conns[*link % n];
                let label = c.label.clone();
                let connected = c.connected;
                c.congestion.perform_window_recovery(&mut c.window, connected, *velocity_milli as f64 / 1000.0, &label, now);
            }
            KEv::MarkForRecovery { link } => self.conns[*link % n].mark_for_recovery(),
            KEv::Reconnect { link } => {
                let c = &mut self.conns[*link % n];
                c.reset_for_reconnect(now);
                c.mark_reconnect_success();
                c.reconnection.reset_startup_grace(now);
            }
            KEv::SetCfg { cfg } => self.cfg = cfg.clone(),
            KEv::SetGlue { link, weak, loss_degraded, cc_target_bps } => {
                let c = &mut self.conns[*link % n];
                c.weak = *weak;
                c.loss_degraded = *loss_degraded;
                c.cc_target_bps = *cc_target_bps;
            }
            KEv::SetMeasured { link, bitrate_bps, add_bytes, add_naks } => {
                let c = &mut self.conns[*link % n];
                c.bitrate.current_bitrate_bps = *bitrate_bps as f64;
                c.bitrate.bytes_sent_total = c.bitrate.bytes_sent_total.saturating_add(*add_bytes);
                c.congestion.nak_count = c.congestion.nak_count.saturating_add(*add_naks as i32);
            }
            KEv::SetWindow { link, window } => {
                self.conns[*link % n].window = (*window).clamp(1000, 60_000);
            }
            KEv::ResetCounters { link } => {
                let c = &mut self.conns[*link % n];
                c.congestion.reset();
                c.bitrate.reset(now);
            }
            KEv::Register { link, seq } => {
                // the production path: queue, then take_batch registers at flush time
                let c = &mut self.conns[*link % n];
                let _ = c.queue_data_packet(&Self::data(*seq), Some(*seq as u32), now);
                let _ = c.take_batch(now);
            }
            KEv::CumAckSeq { seq } => {
                for c in self.conns.iter_mut() {
                    c.handle_srt_ack(*seq, now);
                }
            }
            KEv::SrtlaAckSeq { link, seq } => {
                // mirror of process_connection_events: arrival link first, then first other holder
                let i = *link % n;
                let classic = self.cfg.classic;
                let mut found = self.conns[i].handle_srtla_ack_specific(*seq, classic, now);
                eff.acked.push((i, *seq, found));
                if !found {
                    for k in 0..n {
                        if k != i && self.conns[k].handle_srtla_ack_specific(*seq, classic, now) {
                            eff.acked.push((k, *seq, true));
                            found = true;
                            break;
                        }
                    }
                }
                let _ = found;
                for c in self.conns.iter_mut() {
                    c.handle_srtla_ack_global();
                }
            }
            KEv::NakSeq { link, seq } => {
                let i = *link % n;
                let found = self.conns[i].handle_nak(*seq, now);
                eff.naked.push((i, *seq, found));
            }
        }
        eff
    }
}

pub fn phase_code(p: &LinkPhase) -> u64 {
    match p {
        LinkPhase::Registering => 0,
        LinkPhase::Warming { .. } => 1,
        LinkPhase::Live => 2,
        LinkPhase::Degraded => 3,
    }
}

pub fn abstract_state(conns: &[SrtlaConnection], now: u64) -> u64 {
    let mut h = LogHash::default();
    for c in conns {
        let p = c.verif_private();
        let timed_out = c.is_timed_out(now) as u64;
        let ib = match c.in_flight_packets {
            0 => 0u64,
            1..=31 => 1,
            32..=255 => 2,
            _ => 3,
        };
        h.u64(phase_code(&c.phase)
            | (c.connected as u64) << 2
            | timed_out << 3
            | (p.stall_gated as u64) << 4
            | ((p.stall_latched_since_ms != 0) as u64) << 5
            | (p.silence_pulled as u64) << 6
            | (c.weak as u64) << 7
            | (c.loss_degraded as u64) << 8
            | ((c.window / 10_000) as u64) << 9
            | ib << 13
            | ((c.cc_target_bps > 0) as u64) << 15
            | (c.congestion.fast_recovery_mode as u64) << 16);
    }
    h.0
}

/// Execute a K plan with monitors.
pub fn execute(plan: &KPlan, mut monitors: Vec<Box<dyn KMonitor>>, want_excerpt: bool, full_select_obs: bool) -> RunOutcome {
    crate::lsim::clear_thread_seams();
    let mut w = KWorld::new(plan);
    let mut out = MonOut::default();
    let mut log = LogHash::default();
    let mut excerpt: Vec<String> = Vec::new();
    let mut stats = Stats::default();
    for m in monitors.iter_mut() {
        m.on_start(&w);
    }
    for (i, ev) in plan.events.iter().enumerate() {
        let pre: Vec<SrtlaConnection> = w.conns.clone();
        let cfg_pre = w.cfg.clone();
        let eff = w.apply(ev, full_select_obs);
        let ctx = KCtx { idx: i as u64, now: w.now, ev, pre: &pre, world: &w, eff: &eff, cfg_pre: &cfg_pre };
        for m in monitors.iter_mut() {
            m.on_event(&ctx, &mut out);
        }
        log.u64(i as u64);
        log.u64(w.now);
        for c in &w.conns {
            log.u64(c.window as u64);
            log.u64(c.in_flight_packets as u64);
            log.u64(c.connected as u64);
            log.u64(c.cc_target_bps);
            log.u64(c.weak as u64);
            let p = c.verif_private();
            log.u64(p.stall_gated as u64 | (p.silence_pulled as u64) << 1 | ((p.stall_latched_since_ms != 0) as u64) << 2);
        }
        for s in &eff.selects {
            log.u64(s.result.map(|r| r as u64 + 1).unwrap_or(0));
        }
        if want_excerpt && excerpt.len() < 2_000_000 {
            let links: Vec<String> = w
                .conns
                .iter()
                .map(|c| {
                    let p = c.verif_private();
                    format!(
                        "[{}{} w={} if={} q={}{}{}{} tgt={}]",
                        if c.connected { "C" } else { "-" },
                        phase_code(&c.phase),
                        c.window,
                        c.in_flight_packets,
                        c.batch_sender.queued_count(),
                        if p.stall_gated { " G" } else { "" },
                        if p.stall_latched_since_ms != 0 { " L" } else { "" },
                        if p.silence_pulled { " P" } else { "" },
                        c.cc_target_bps
                    )
                })
                .collect();
            let sel: Vec<String> = eff.selects.iter().take(4).map(|s| format!("{:?}->{:?}", s.last, s.result)).collect();
            excerpt.push(format!("#{i} t={} {:?} sel={:?} links={}", w.now, ev, sel, links.join("")));
        }
        stats.inc("events.total");
        if i % 8 == 0 {
            out.states.push(abstract_state(&w.conns, w.now));
        }
        if out.violations.len() >= 16 {
            break;
        }
    }
    for m in monitors.iter_mut() {
        m.on_finish(&w, &mut out);
    }
    crate::lsim::clear_thread_seams();
    stats.merge(&out.stats);
    let mut states = std::mem::take(&mut out.states);
    states.sort_unstable();
    states.dedup();
    RunOutcome {
        violations: out.violations,
        log_hash: log.0,
        nontrivial: out.nontrivial,
        inconclusive: false,
        stats,
        states,
        transitions: Vec::new(),
        excerpt,
        sim_time_ms: w.now - plan.time_base_ms,
    }
}

/// Generic shrinker: drop chunks of events.
pub fn shrink(plan: &KPlan) -> Vec<KPlan> {
    let mut out = Vec::new();
    let n = plan.events.len();
    let mut chunk = n / 2;
    while chunk >= 1 {
        let mut start = 0;
        while start < n {
            let end = (start + chunk).min(n);
            let mut p = plan.clone();
            p.events.drain(start..end);
            if !p.events.is_empty() {
                out.push(p);
            }
            start += chunk;
        }
        if chunk == 1 {
            break;
        }
        chunk /= 2;
    }
    if plan.n_links > 1 {
        let mut p = plan.clone();
        p.n_links -= 1;
        out.push(p);
    }
    out
}
