//! C10 — classic mode reproduces the reference algorithm (stepwise refinement).
//!
//! An independent re-implementation of the reference rules is applied to the
//! observed pre-state of every step and must predict the post-state.

use std::collections::HashMap;

use super::setmodel::{SetEv, SetModel};
use super::{Truth, data_seq, is_rexmit};
use crate::lsim::{MonOut, Monitor, StepCtx, StepKind, find_view};

const M: &str = "C10";

#[derive(Default)]
pub struct C10 {
    truth: Truth,
    model: SetModel,
}

impl C10 {
    pub fn new() -> Self {
        Self::default()
    }
}

impl Monitor for C10 {
    fn on_step(&mut self, ctx: &StepCtx<'_>, out: &mut MonOut) {
        let active = ctx.cfg.mode.is_classic() && !ctx.cfg.stall_deselect;
        // ---- routing decision: reference select_conn ----
        if active
            && let StepKind::Client(Some(bytes)) = ctx.kind
            && !bytes.is_empty()
            && ctx.has_connected_pre
        {
            let mut best: Option<(u64, i32)> = None;
            for v in ctx.pre {
                if !self.truth.usable_at_decision(v, ctx.now, ctx.cfg.conn_timeout_ms) {
                    continue;
                }
                let score = v.window / (v.in_flight + v.queued + 1);
                if best.is_none_or(|(_, s)| score > s) {
                    best = Some((v.conn_id, score));
                }
            }
            let placed: Vec<u64> = ctx
                .pre
                .iter()
                .filter(|p| {
                    find_view(ctx.mid, p.conn_id).is_some_and(|m| {
                        m.queued != p.queued || ctx.wire[..ctx.wire_mid].iter().any(|w| Some(w.fd) == p.fd)
                    })
                })
                .map(|p| p.conn_id)
                .collect();
            let actual = if placed.is_empty() {
                None
            } else {
                ctx.world.last_selected_idx.and_then(|i| ctx.mid.get(i)).map(|v| v.conn_id)
            };
            out.probe("c10.decision");
            let must_land = data_seq(bytes).is_some() && (ctx.critical_pre || is_rexmit(bytes));
            if must_land {
                out.probe("c10.must_land_packet");
            }
            if ctx.pre.len() > 1 {
                let scores: Vec<i32> = ctx.pre.iter().map(|v| v.window / (v.in_flight + v.queued + 1)).collect();
                if scores.iter().filter(|s| Some(**s) == best.map(|b| b.1)).count() > 1 {
                    out.probe("c10.tie");
                }
            }
            if actual != best.map(|b| b.0) {
                out.violate(
                    &format!("{M}.choice"),
                    if must_land { "must_land_packet" } else { "plain_packet" },
                    ctx.idx,
                    format!(
                        "classic mode chose {:x?} but the reference rule picks {:x?} (scores: {})",
                        actual,
                        best.map(|b| b.0),
                        ctx.pre
                            .iter()
                            .map(|v| format!("{:x}:{}/({}+{}+1)", v.conn_id & 0xffff, v.window, v.in_flight, v.queued))
                            .collect::<Vec<_>>()
                            .join(" ")
                    ),
                );
            }
            if placed.len() > 1 {
                out.violate(&format!("{M}.choice"), "extra_copy", ctx.idx, "duplicate copy with the stall guard off".into());
            }
        }

        // ---- window evolution: reference ACK / NAK rules ----
        self.truth.update(ctx);
        let world = ctx.world;
        let real_holds = |conn: u64, seq: i32| -> bool {
            world
                .conns
                .iter()
                .find(|c| c.conn_id == conn)
                .is_some_and(|c| c.packet_log.contains_key(&seq))
        };
        let torn = self.truth.torn_down_now.clone();
        let evs = self.model.apply_step(ctx, &torn, &self.truth.removed_now.clone(), &real_holds);
        // keep the set model in step with the implementation (C02 owns divergences)
        let mut w: HashMap<u64, i32> = ctx.pre.iter().map(|v| (v.conn_id, v.window)).collect();
        for c in &torn {
            w.insert(*c, 20_000);
        }
        for v in ctx.post {
            w.entry(v.conn_id).or_insert(20_000);
        }
        // connected flags as they stand after the main action / during the drain
        let connected = |c: u64| find_view(ctx.post, c).is_some_and(|v| v.connected);
        for e in &evs {
            match e {
                SetEv::SrtlaAck { retired_on, in_flight_after, .. } => {
                    if let Some(l) = retired_on
                        && let Some(x) = w.get_mut(l)
                        && (*in_flight_after as i64) * 1000 > *x as i64
                    {
                        *x = (*x + 29).min(60_000);
                    }
                    for (c, x) in w.iter_mut() {
                        if connected(*c) {
                            *x = (*x + 1).min(60_000);
                        }
                    }
                    out.probe("c10.srtla_ack");
                }
                SetEv::Nak { removed_from: Some(l), .. } => {
                    if let Some(x) = w.get_mut(l) {
                        *x = (*x - 100).max(1000);
                    }
                    out.probe("c10.nak");
                }
                _ => {}
            }
        }
        if active {
            for v in ctx.post {
                let expect = w.get(&v.conn_id).copied().unwrap_or(v.window);
                if v.window != expect {
                    out.violate(
                        &format!("{M}.window"),
                        ctx.kind.name(),
                        ctx.idx,
                        format!(
                            "link {:x}: window {} after a {} step, reference rules give {} (from {})",
                            v.conn_id,
                            v.window,
                            ctx.kind.name(),
                            expect,
                            find_view(ctx.pre, v.conn_id).map(|p| p.window).unwrap_or(-1)
                        ),
                    );
                }
                if !(1000..=60_000).contains(&v.window) {
                    out.violate(&format!("{M}.window"), "range", ctx.idx, format!("window {}", v.window));
                }
            }
            if matches!(ctx.kind, StepKind::Housekeeping) {
                out.probe("c10.housekeeping");
            }
        }
        for c in world.conns.iter() {
            let real: std::collections::BTreeSet<i32> = c.packet_log.keys().copied().collect();
            self.model.sets.insert(c.conn_id, real);
        }
    }
}
