#!/usr/bin/env python3
"""Generate /verif/MANIFEST.json from the table below (keeps the manifest valid and in one place)."""
import json, subprocess

ENGINE_NAME = {"L": "loopsim (event-loop simulation)", "K": "coresim (core timed-history simulation)", "T": "tasksim (task-schedule simulation)"}
TECH = {
    "L": "deterministic simulation with fault injection: seeded event-loop simulator around the real shell arms, virtual clock, in-memory socket seams, invariant/ledger monitors, seed+plan replay",
    "K": "deterministic simulation with fault injection: seeded timed event histories on the real sans-IO core under a virtual clock (silence, ACK starvation, RTT inflation, loss bursts, resets), temporal/invariant monitors, seed+plan replay",
    "T": "deterministic simulation with fault injection: own seeded single-thread executor deciding every task interleaving at await/yield points (stalled, closed and full subscribers), history oracles, seed+schedule replay",
}

# id: (built, engine, category, text, note, design_ref)
P = {
 "C01": (True, "L", "fault_enumeration",
   "Closed-loop simulation of the real forwarding path (handle_srt_packet / forward_via_connection / send_stall_probes / flush_all_batches / send_all_datagrams) under seeded arm interleavings, all batch regimes, link loss, black holes, send errors, short and zero-progress sendmmsg, re-registration, reloads and stalls; a per-link FIFO ledger checks every send_batch call byte for byte, in order, once, the 32-datagram / one-flush-tick hold bound, the probe budget, and that only excused datagrams go missing. Sampling, not enumeration: a clean batch is evidence, not proof.",
   "Trusted: the mirrored select! glue (call order of src/sender/mod.rs at the pinned commit), hook H3 as the only way stream bytes leave, the environment models. Kernel UDP, recvmmsg and real timers are outside the simulation.",
   "§P-C01"),
 "C02": (True, "L", "exploration",
   "Closed-loop simulation (send side fault-free) with retransmissions of already-acknowledged numbers, duplicate probes, receiver ACK/NAK traffic and forged well-formed cumulative ACKs (stale, duplicate, >64 ahead), SRTLA ACK lists on any link, NAK singles/ranges and link resets; after every step each link's outstanding log is compared as a set with a high-water-mark-free set model, plus in-flight = |set| >= 0 and score = window/(|set|+queued+1). Seeded sampling of histories: evidence, not proof.",
   "Trusted: the packet log exposed by the repository's own test-internals feature is the implementation's notion of outstanding packets; choices the statement leaves open (which other holder an SRTLA ACK retires, whether a NAK is charged) are read from observation. Send failures are outside the quantifier and not injected here.",
   "§P-C02"),
 "C04": (True, "L", "fault_enumeration",
   "Closed-loop simulation on 2..4 uplinks with black holes, link loss, short timeouts (connected-but-timed-out links waiting out their back-off), receiver restarts / REG_ERR, run-time mode/quality/guard/timeout changes, R-flagged data and critical windows all along the stream; every routing decision after establishment is judged by an independent eligibility model (REG3 since last reset, heard within the timeout by the monitor's own stamps, not stall-gated in this decision) and a bad decision is labelled by call site (selector vs priority override). Seeded sampling of fault histories.",
   "Trusted: the stall-gated flag read back right after a decision is the one that decision computed; the mirrored loop glue; environment models.",
   "§P-C04"),
 "C05": (True, "L", "exploration",
   "Closed-loop simulation with probe copies, re-routed retransmissions, sequence strides colliding modulo 16384, an exact 5000/5001 ms expiry-boundary scenario under a silent receiver, reload removing links, and NAK lists (singles, ranges, repeats, unknown numbers) from the receiver model and forged; every NAK entry is judged against an independent ownership table and the exact charge arithmetic (+1 loss count, -100 floored at 1000, -1 in-flight) is checked per datagram. Seeded sampling of histories.",
   "Trusted: which holder lost a NAKed number is read from the packet log after the datagram (one datagram per step). For a NAK the sender has no record for, charging any one holder or nobody is accepted.",
   "§P-C05"),
 "C10": (True, "L", "exploration",
   "Closed-loop simulation in classic mode with the stall guard off from random window vectors, with R-flagged data, critical windows, SRTLA ACKs, cumulative ACKs, NAKs, resets and housekeeping ticks (some runs start in enhanced mode and switch, leaving quality caches stale); an independent re-implementation of the reference rules predicts every routing choice and every window from the observed pre-state of each step (stepwise refinement, so one divergence is localised to one event). Seeded sampling of histories.",
   "Trusted: usable = REG3 since last reset, connected, heard within the configured timeout (monitor's own stamps); the link a NAK was charged to is taken from observation (C05 judges it).",
   "§P-C10"),
}
NOT_BUILT_REASON = "no check is claimed for this property in this revision of /verif (machinery not built yet; see DESIGN.md §6 for the planned decision procedure)"

def main():
    props = [json.loads(l) for l in open('/verif/properties.jsonl')]
    hooks = subprocess.run(["git", "-C", "/repo", "log", "--format=%H %s", "--grep=^verif-hooks:"], capture_output=True, text=True).stdout.strip().splitlines()
    commits = [h.split()[0] for h in hooks][::-1]
    checks, na, engines = [], [], {}
    for p in props:
        pid = p["id"]
        ent = P.get(pid)
        if not ent or not ent[0]:
            na.append({"property_id": pid, "reason": NOT_BUILT_REASON})
            continue
        _, eng, cat, text, note, ref = ent
        engines.setdefault(eng, []).append(pid)
        checks.append({
            "property_id": pid,
            "quick_cmd": f"./run.sh {pid} quick",
            "thorough_cmd": f"./run.sh {pid} thorough",
            "evidence_file": f"/verif/evidence/{pid}.json",
            "replay_cmd_template": "./run.sh replay {path}",
            "engine": ENGINE_NAME[eng],
            "level_claimed": {"category": cat, "text": text, "design_ref": ref},
            "level_note": note,
            "technique": TECH[eng],
        })
    m = {
        "version": 1,
        "setup_cmd": "./run.sh setup",
        "hooks": {
            "guard": "cargo feature `verif-hooks` (on srtla-core and srtla_send; srtla_send forwards to srtla-core)",
            "enable": "the simulator crate /verif/sim depends on /repo by path with features verif-hooks,test-internals; `cargo build --release --offline` in /verif/sim rebuilds from /repo's working tree",
            "baseline_off_cmd": "cd /repo && cargo test --workspace --no-fail-fast --offline",
            "source_commits": commits,
            "add_only": True,
        },
        "engines": [{"name": ENGINE_NAME[e], "path": "/verif/sim", "serves_properties": ids,
                     "kind_free_text": TECH[e]} for e, ids in sorted(engines.items())],
        "checks": checks,
        "notes": "Exit codes: 0 held, 1 violation (VIOLATION line + replay file), 2 harness error. Default VERIF_SEED=1. Known findings: /verif/known_findings.json (read-only at run time).",
        "not_applicable": na,
    }
    json.dump(m, open('/verif/MANIFEST.json', 'w'), indent=1)
    print(f"{len(checks)} checks, {len(na)} not claimed")

main()
