//! Registry of property checks.

use serde_json::Value;

use crate::common::{Check, RunOutcome, Tier};
use crate::lsim::plan::{LPlan, Profile};
use crate::lsim::{self, Monitor};

pub type MonFactory = fn() -> Vec<Box<dyn Monitor>>;

/// A check decided by engine L: a scenario profile plus a set of monitors.
pub struct LCheck {
    pub id: &'static str,
    pub level: &'static str,
    pub profile: fn(u64) -> Profile,
    pub post: Option<fn(&mut LPlan, u64)>,
    pub monitors: MonFactory,
    pub quick_runs: u64,
    pub thorough_runs: u64,
    pub rule: &'static str,
    pub assumptions: &'static [&'static str],
    pub probes: &'static [&'static str],
}

pub const L_REAL: &[&str] = &[
    "srtla-core (all: connection state, selection, registration, congestion, CC, classifier)",
    "srtla-protocol (builders, parsers)",
    "sender shell: handle_srt_packet, forward_via_connection, send_stall_probes, send_connection_batch, flush_all_batches, handle_uplink_packet, drain_packet_queue, process_uplink_packet, process_connection_events, attribute_nak, handle_housekeeping, reconnect_uplink, connect_uplink/create_connections_from_ips, apply_connection_changes, analyze_ip_reload, SequenceTracker, send_all_datagrams, sync_readers, DynamicConfig, control::dispatch, CriticalWindow, SharedStats::update, SubscriptionHub::publish",
];

pub const L_STUB: &[&str] = &[
    "select! loop body of run_sender_with_config: mirrored call-for-call by the simulator (it owns timers, listener and signal stream)",
    "kernel UDP and recvmmsg reader tasks: uplink sockets are inert handles, datagrams cross an in-memory interceptor (hook H3) and the real uplink channel",
    "downstream client socket: in-memory wrapper (hook H4); the 3-line instant-ACK forwarding task is mirrored",
    "network, SRTLA receiver (written from srtla_rec behaviour) and SRT endpoint: seeded environment models",
    "process clock: thread-local virtual clock inside now_ms() (hook H1); rand::rng() ids: seeded (hooks H2/H5)",
];

impl Check for LCheck {
    fn id(&self) -> &'static str {
        self.id
    }
    fn engine(&self) -> &'static str {
        "L"
    }
    fn level(&self) -> &'static str {
        self.level
    }
    fn runs(&self, tier: Tier) -> u64 {
        match tier {
            Tier::Quick => self.quick_runs,
            Tier::Thorough => self.thorough_runs,
        }
    }
    fn generate(&self, run_seed: u64, index: u64, _tier: Tier) -> Value {
        let profile = (self.profile)(index);
        let mut plan = lsim::plan::generate(run_seed, &profile);
        if let Some(post) = self.post {
            post(&mut plan, run_seed);
        }
        plan.to_value()
    }
    fn execute(&self, plan: &Value, want_excerpt: bool) -> RunOutcome {
        let plan = match LPlan::from_value(plan) {
            Ok(p) => p,
            Err(e) => panic!("{e}"),
        };
        lsim::execute(&plan, (self.monitors)(), want_excerpt)
    }
    fn shrink(&self, plan: &Value) -> Vec<Value> {
        match LPlan::from_value(plan) {
            Ok(p) => lsim::plan::shrink(&p).into_iter().map(|p| p.to_value()).collect(),
            Err(_) => Vec::new(),
        }
    }
    fn rule(&self) -> String {
        self.rule.to_string()
    }
    fn assumptions(&self) -> Vec<String> {
        self.assumptions.iter().map(|s| s.to_string()).collect()
    }
    fn real_components(&self) -> Vec<String> {
        L_REAL.iter().map(|s| s.to_string()).collect()
    }
    fn stub_components(&self) -> Vec<String> {
        L_STUB.iter().map(|s| s.to_string()).collect()
    }
    fn expected_probes(&self) -> Vec<&'static str> {
        self.probes.to_vec()
    }
    fn sample_view(&self, plan: &Value) -> Value {
        // Keep samples readable: abridge the action list.
        let mut v = plan.clone();
        if let Some(a) = v.get_mut("actions").and_then(|a| a.as_array_mut())
            && a.len() > 12
        {
            let n = a.len();
            a.truncate(12);
            a.push(serde_json::json!(format!("... {} more actions", n - 12)));
        }
        v
    }
}

fn c01_profile(index: u64) -> Profile {
    let mut p = Profile::base("c01");
    p.net_loss = true;
    p.blackholes = true;
    p.link_loss = true;
    p.send_faults = true;
    p.stalls = true;
    p.reloads = index % 5 == 4;
    p.receiver_restart = index % 3 == 2;
    p.timeouts = true;
    p.heavy_rate_bias = index % 2 == 0;
    p.low_stall_threshold_bias = true;
    p.horizon_hi_ms = 16_000;
    p
}

pub fn all() -> Vec<Box<dyn Check>> {
    vec![Box::new(LCheck {
        id: "C01",
        level: "fault_enumeration",
        profile: c01_profile,
        post: None,
        monitors: || vec![Box::new(crate::mon::c01::C01::new())],
        quick_runs: 300,
        thorough_runs: 20_000,
        rule: "one run = one seeded plan (1..4 uplinks, mode, batch regimes via client rate, link/receiver parameters, timed fault actions) executed by the event-loop simulator against the real forwarding shell; every arm interleaving is decided by the seeded tie-break. A run is non-trivial if at least one client datagram was accepted after the session was established or a flush/probe/reset probe fired; distinct = distinct event-log hashes among non-trivial runs",
        assumptions: &[
            "the mirrored select! glue calls the real arms in the order of src/sender/mod.rs at the pinned commit",
            "stream datagrams leave only through BatchUdpSocket::send_batch (observed at hook H3)",
            "the stall-gated flag read back after a routing decision is the one that decision computed",
        ],
        probes: &["c01.accepted", "c01.threshold_flush", "c01.timer_flush"],
    })]
}
