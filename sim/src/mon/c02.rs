//! C02 — in-flight equals the set of sent-and-not-retired sequence numbers.

use std::collections::BTreeSet;

use super::Truth;
use super::setmodel::{SetEv, SetModel};
use crate::lsim::{MonOut, Monitor, StepCtx, abstract_state};

const M: &str = "C02";

#[derive(Default)]
pub struct C02 {
    truth: Truth,
    model: SetModel,
}

impl C02 {
    pub fn new() -> Self {
        Self::default()
    }
}

impl Monitor for C02 {
    fn on_step(&mut self, ctx: &StepCtx<'_>, out: &mut MonOut) {
        self.truth.update(ctx);
        let world = ctx.world;
        let real_holds = |conn: u64, seq: i32| -> bool {
            world
                .conns
                .iter()
                .find(|c| c.conn_id == conn)
                .is_some_and(|c| c.packet_log.contains_key(&seq))
        };
        let evs = self.model.apply_step(
            ctx,
            &self.truth.torn_down_now.clone(),
            &self.truth.removed_now.clone(),
            &real_holds,
        );
        let mut nak_removed = 0u64;
        for e in &evs {
            match e {
                SetEv::Sent { seqs, .. } if !seqs.is_empty() => out.probe("c02.sent"),
                SetEv::CumAck { .. } => out.probe("c02.cumulative_ack"),
                SetEv::SrtlaAck { retired_on: Some(r), arrival, ambiguous, .. } => {
                    out.probe("c02.srtla_ack_retired");
                    if r != arrival {
                        out.probe("c02.srtla_ack_other_holder");
                    }
                    if *ambiguous {
                        out.probe("c02.srtla_ack_ambiguous");
                    }
                }
                SetEv::Nak { removed_from: Some(_), .. } => {
                    nak_removed += 1;
                    out.probe("c02.nak_retired");
                }
                SetEv::Reset { .. } => out.probe("c02.reset"),
                _ => {}
            }
        }
        let _ = nak_removed;
        // Compare, link by link.
        for c in world.conns.iter() {
            let model = self.model.sets.entry(c.conn_id).or_default();
            let real: BTreeSet<i32> = c.packet_log.keys().copied().collect();
            if c.in_flight_packets < 0 {
                out.violate(&format!("{M}.negative"), "", ctx.idx, format!("link {:x}: in-flight {}", c.conn_id, c.in_flight_packets));
            }
            if c.in_flight_packets as usize != real.len() {
                out.violate(
                    &format!("{M}.count_vs_log"),
                    "",
                    ctx.idx,
                    format!("link {:x}: in-flight {} but {} outstanding sequence numbers are logged", c.conn_id, c.in_flight_packets, real.len()),
                );
            }
            if real != *model {
                let extra: Vec<i32> = real.difference(model).copied().take(6).collect();
                let missing: Vec<i32> = model.difference(&real).copied().take(6).collect();
                let hw = self.model.max_cum_ack.get(&c.conn_id).copied().unwrap_or(i32::MIN);
                let label = if !extra.is_empty() && missing.is_empty() && extra.iter().all(|s| *s <= hw) {
                    out.probe("c02.send_after_ack_passed");
                    "not_retired_by_cumulative_ack"
                } else if !extra.is_empty() && missing.is_empty() {
                    "not_retired"
                } else if extra.is_empty() {
                    "retired_without_cause"
                } else {
                    "diverged"
                };
                out.violate(
                    &format!("{M}.in_flight"),
                    label,
                    ctx.idx,
                    format!(
                        "link {:x} after a {} step: in-flight {} but the set model has {} (implementation keeps {:?}, lacks {:?}; highest cumulative ACK seen {})",
                        c.conn_id,
                        ctx.kind.name(),
                        c.in_flight_packets,
                        model.len(),
                        extra,
                        missing,
                        hw
                    ),
                );
                // Resynchronise on exactly the diverging numbers.
                *model = real.clone();
            }
            // The load-balancing signal.
            let expect_score = if !c.connected {
                -1
            } else {
                c.window / (model.len() as i32 + c.batch_sender.queued_count() + 1).max(1)
            };
            if c.get_score() != expect_score {
                out.violate(
                    &format!("{M}.score"),
                    "",
                    ctx.idx,
                    format!("link {:x}: score {} but window/(outstanding+queued+1) = {}", c.conn_id, c.get_score(), expect_score),
                );
            }
        }
        if ctx.idx % 16 == 0 {
            out.states.push(abstract_state(ctx.post, ctx.now, &ctx.world.reg));
        }
    }
}
