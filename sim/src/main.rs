//! `verif <ID> quick|thorough` runs a property check; `verif replay <file>`
//! re-executes a replay file; `verif list` prints the property ids.

// Second copy of the control plane, compiled into this crate with shuttle atomics (engine S).
#[allow(dead_code, unused_imports, unexpected_cfgs)]
#[path = "/repo/src/config.rs"]
mod config;
#[allow(dead_code, unused_imports, unexpected_cfgs)]
#[path = "/repo/src/control.rs"]
mod control;
#[allow(dead_code, unused_imports, unexpected_cfgs)]
#[path = "/repo/src/stats.rs"]
mod stats;
#[allow(dead_code, unused_imports, unexpected_cfgs)]
#[path = "/repo/src/subscriptions.rs"]
mod subscriptions;

mod checks;
mod common;
mod findings;
mod ksim;
mod tsim;
mod ssim;
mod wsim;
mod xsim;
mod lsim;
mod mon;
mod prng;
mod rsim;
mod runner;

use common::Tier;

fn main() {
    // shuttle prints a notice about Relaxed orderings on first use; the limit is stated in the evidence
    // SAFETY: single-threaded at this point.
    unsafe { std::env::set_var("SHUTTLE_SILENCE_WARNINGS", "1") };
    runner::install_panic_hook();
    let args: Vec<String> = std::env::args().collect();
    let checks = checks::all();
    let code = match args.get(1).map(|s| s.as_str()) {
        Some("list") => {
            for c in &checks {
                println!("{}", c.id());
            }
            0
        }
        Some("selftest") => selftest(&checks),
        Some("replay") => match args.get(2) {
            Some(p) => runner::replay(&checks, p),
            None => {
                eprintln!("usage: verif replay <file>");
                2
            }
        },
        Some(id) => {
            let tier = match args
                .get(2)
                .map(|s| s.to_string())
                .or_else(|| std::env::var("VERIF_TIER").ok())
                .as_deref()
            {
                Some("thorough") => Tier::Thorough,
                _ => Tier::Quick,
            };
            match checks.iter().find(|c| c.id() == id) {
                Some(c) => runner::run_batch(c.as_ref(), tier, runner::default_seed()),
                None => {
                    eprintln!("HARNESS-ERROR: no check for property '{id}'");
                    2
                }
            }
        }
        None => {
            eprintln!("usage: verif <ID> quick|thorough | replay <file> | list");
            2
        }
    };
    std::process::exit(code);
}

/// Determinism self-test: every check, a handful of run indices, executed twice
/// on different threads; event-log hashes must agree.
fn selftest(checks: &[Box<dyn common::Check>]) -> i32 {
    let seed = runner::default_seed();
    let n: u64 = std::env::var("VERIF_SELFTEST_RUNS")
        .ok()
        .and_then(|v| v.parse().ok())
        .unwrap_or(7);
    let mut bad = 0;
    for c in checks {
        let hashes: Vec<Vec<u64>> = (0..2)
            .map(|_| {
                std::thread::scope(|s| {
                    let hs: Vec<_> = (0..n)
                        .map(|i| {
                            s.spawn(move || {
                                let rs = prng::run_seed(seed, c.id(), i);
                                let plan = c.generate(rs, i, Tier::Quick);
                                match runner::run_one(c.as_ref(), &plan, false) {
                                    Ok(o) => o.log_hash,
                                    Err(_) => u64::MAX,
                                }
                            })
                        })
                        .collect();
                    hs.into_iter().map(|h| h.join().unwrap_or(u64::MAX)).collect()
                })
            })
            .collect();
        if hashes[0] != hashes[1] || hashes[0].contains(&u64::MAX) {
            eprintln!("HARNESS-ERROR: selftest: {} is not deterministic or failed: {:x?} vs {:x?}", c.id(), hashes[0], hashes[1]);
            bad += 1;
        } else {
            println!("selftest {}: {} runs x2, hashes equal", c.id(), n);
        }
    }
    // engine S must really run on shuttle atomics (the seam lives in /repo/src/config.rs)
    let probe = ssim::SPlan {
        seed: 7,
        pct: None,
        threads: vec![vec![ssim::Op::SetTimeout(0); 4], vec![ssim::Op::Snapshot; 4]],
    };
    let max_switches = (0..40u64)
        .map(|s| {
            let mut p = probe.clone();
            p.seed = s;
            ssim::execute(&p, false).stats.get("c18s.context_switches")
        })
        .max()
        .unwrap_or(0);
    if max_switches < 12 {
        eprintln!("HARNESS-ERROR: selftest: engine S saw at most {max_switches} context switches: the configuration atomics are not shuttle's (is the verif_shuttle seam in /repo/src/config.rs present?)");
        bad += 1;
    } else {
        println!("selftest engine S: shuttle atomics active (up to {max_switches} context switches in an 8-operation scenario)");
    }
    if bad > 0 { 2 } else { 0 }
}
