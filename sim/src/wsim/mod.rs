//! Engine W — whole-loop simulation.
//!
//! The *real* `run_sender_with_config` (its `select!` loop, timers, glue lines and
//! spawned tasks) runs as a task on a current-thread tokio runtime with a paused
//! clock and a seeded RNG (deterministic `select!` branch order; `tokio_unstable`).
//! `now_ms()` follows the paused clock (hook H1 clock function), client datagrams
//! enter through the listener shim, uplink datagrams through the loop's own
//! channel, and everything it writes is captured at the H3/H4 seams. The loop's
//! locals are not observable, so oracles here are wire-level; they exist to cover
//! the glue of `src/sender/mod.rs`, which engine L only mirrors.

use std::cell::Cell;
use std::collections::{BinaryHeap, HashMap, HashSet, VecDeque};
use std::net::SocketAddr;
use std::sync::Arc;
use std::sync::atomic::Ordering;

use smallvec::SmallVec;
use srtla_core::verif_hooks as core_hooks;
use srtla_send::config::DynamicConfig;
use srtla_send::net::UplinkBinder;
use srtla_send::net::verif_hooks as net_hooks;
use srtla_send::net::verif_hooks::UplinkCall;
use srtla_send::sender::verif_hooks as sh;
use tokio::time::{Duration, Instant};

use crate::common::{RunOutcome, Stats};
use crate::lsim::env::{Env, NetDir};
use crate::lsim::plan::{Action, LPlan};
use crate::lsim::{ClientOut, Ev, MonOut, SeamHandle, SimBinder, WireSend, clear_thread_seams, install_interceptors};
use crate::mon::{T_KEEPALIVE, T_REG_ERR, T_REG_NGP, T_REG2, T_REG3, T_SRTLA_ACK, data_seq, ptype};
use crate::prng::{LogHash, Rng, hash3};

thread_local! {
    static BASE_MS: Cell<u64> = const { Cell::new(0) };
    static START: Cell<Option<Instant>> = const { Cell::new(None) };
}

fn tokio_now_ms() -> u64 {
    let base = BASE_MS.with(|b| b.get());
    match START.with(|s| s.get()) {
        Some(st) => base + Instant::now().saturating_duration_since(st).as_millis() as u64,
        None => base,
    }
}

#[derive(Debug, PartialEq, Eq, PartialOrd, Ord)]
struct Timed {
    t: u64,
    seq: u64,
    ev: Ev,
}

/// Wire-level monitors over the real loop.
#[derive(Default)]
struct WMon {
    /// accepted client datagrams: bytes -> (index, accept time)
    accepted: HashMap<Vec<u8>, (u64, u64)>,
    pending: VecDeque<(Vec<u8>, u64, u64)>,
    on_wire: HashSet<Vec<u8>>,
    last_idx_on_path: HashMap<usize, u64>,
    copies: HashMap<Vec<u8>, Vec<usize>>,
    data_routed: u64,
    extra_total: u64,
    paths_seen: HashSet<usize>,
    /// per path: REG3 delivered for the current socket generation, last time heard
    registered: HashMap<usize, u64>,
    heard: HashMap<usize, u64>,
    any_reg3: bool,
    /// times at which some link (re-)registered or re-attempted (excuses for a lost queue)
    resets: Vec<u64>,
    last_ka: HashMap<usize, u64>,
    client_known_at: Option<u64>,
    /// relayable uplink datagrams injected and not yet seen at the client seam
    relay_pending: Vec<(Vec<u8>, u64)>,
    n_accepted: u64,
    // ---- C19 on the wire ----
    /// paths the uplink list holds (by the monitor's own reading of the accepted files)
    active: Vec<usize>,
    reload: Option<ReloadW>,
    /// removed paths: no datagram may leave their old socket after this instant
    dead_since: HashMap<usize, u64>,
    last_send: HashMap<usize, u64>,
    last_reload_ts: Option<u64>,
    reload_windows: Vec<(u64, u64)>,
    v6_paths: Vec<usize>,
    /// paths that have a socket by the simulator's account (binder seam)
    has_socket: HashSet<usize>,
    /// paths whose bind currently fails by injection
    bind_fail: HashSet<usize>,
    c19_off: bool,
    timeout_ms: u64,
    // ---- classic housekeeping on the wire (C06 / C10) ----
    /// since when the configured mode has been classic (None: enhanced)
    classic_since: Option<u64>,
    /// per path: when the last keepalive left and the window it reported
    ka_window: HashMap<usize, (u64, i32)>,
    /// last time an ACK / NAK / SRTLA ACK reached the sender on any path
    last_feedback: u64,
    // ---- weak-link verdicts as published once per housekeeping tick (C17) ----
    /// per link label: (consecutive share-weak verdicts, forced not-weak ticks still owed)
    c17: HashMap<String, (u32, u32)>,
    /// per link label: what the previous tick published about the CC soft cap (C16)
    c16: HashMap<String, C16W>,
    // ---- NAK attribution on the wire (C05) ----
    /// data sequence number -> (time, path) of every copy seen on the wire
    seq_paths: HashMap<u32, Vec<(u64, usize)>>,
    /// a forged single-number NAK was delivered: (when, path that carried the last copy)
    pending_nak: Option<(u64, usize, u32)>,
    prev_windows: HashMap<String, i64>,
}

#[derive(Clone, Default)]
struct C16W {
    target: u64,
    state: String,
    seeded: bool,
    loss_degraded: bool,
    high_since: Option<u64>,
}

/// An accepted reload whose application (at the next housekeeping tick) is awaited.
struct ReloadW {
    ts: u64,
    deadline: u64,
    list: Vec<usize>,
    added: Vec<usize>,
    removed: Vec<usize>,
    survivors: Vec<usize>,
    binds_seen: HashMap<usize, u32>,
}

/// The statement's reading of an IP-list file: the parsable lines, in order.
fn parsable_lines(text: &str) -> Vec<std::net::IpAddr> {
    text.lines().map(|l| l.trim()).filter(|l| !l.is_empty()).filter_map(|l| l.parse().ok()).collect()
}

const M1: &str = "C01";
const M9: &str = "C09";
const M14: &str = "C14";
const M19: &str = "C19";

fn internal(t: u16) -> bool {
    matches!(t, T_REG2 | T_REG3 | T_REG_ERR | T_REG_NGP | T_SRTLA_ACK | T_KEEPALIVE)
}

impl WMon {
    fn usable(&self, now: u64, timeout: u64) -> usize {
        self.registered
            .keys()
            .filter(|p| self.heard.get(p).is_some_and(|h| now.saturating_sub(*h) < timeout))
            .filter(|p| !self.reload.as_ref().is_some_and(|r| r.removed.contains(p)))
            .count()
    }

    fn on_client_inject(&mut self, now: u64, bytes: &[u8], timeout: u64, out: &mut MonOut) {
        if bytes.is_empty() {
            return;
        }
        if self.client_known_at.is_none() {
            self.client_known_at = Some(now);
        }
        // judged only when established and a link is usable with a margin on both sides;
        // only datagrams long enough to carry the client's unique tag (content identifies them)
        if bytes.len() >= 24
            && self.any_reg3 && self.usable(now, timeout.saturating_sub(40)) > 0 && !self.accepted.contains_key(bytes) {
            self.n_accepted += 1;
            self.accepted.insert(bytes.to_vec(), (self.n_accepted, now));
            self.pending.push_back((bytes.to_vec(), self.n_accepted, now));
            out.probe("w.accepted");
        }
        if data_seq(bytes).is_some() {
            self.data_routed += 1;
        }
    }

    /// One `stats` event (the snapshot the housekeeping arm publishes every tick).
    fn on_stats(&mut self, now: u64, line: &str, out: &mut MonOut) {
        let Ok(v) = serde_json::from_str::<serde_json::Value>(line) else { return };
        let Some(links) = v["params"]["data"]["links"].as_array() else { return };
        out.probe("w.c17.tick");
        // under the throughput floor nothing is reported weak (judged from the published rates,
        // well clear of the 100 kbit/s boundary: the classifier sees the rates a moment earlier)
        let total_bps: u64 = links.iter().filter(|l| l["connected"].as_bool() == Some(true)).map(|l| l["bitrate_bytes_per_sec"].as_u64().unwrap_or(0) * 8).sum();
        if total_bps < 20_000 {
            out.probe("w.c17.tick_far_below_floor");
            for l in links {
                if l["weak"].as_bool() == Some(true) {
                    out.violate(
                        "C17.weak_when_unjudgeable",
                        "below_floor_whole_loop",
                        now,
                        format!("{} reported weak ({}) while the published total throughput is {total_bps} bit/s (real loop)", l["label"].as_str().unwrap_or("?"), l["weak_reason"].as_str().unwrap_or("?")),
                    );
                }
            }
        }
        // a bypassed tick (throughput under the floor, nobody connected) restarts every history
        if links.iter().any(|l| l["weak_reason"].as_str() == Some("bypassed")) || links.is_empty() {
            self.c17.clear();
            let labels: Vec<String> = links.iter().filter_map(|l| l["label"].as_str().map(|s| s.to_string())).collect();
            self.c16.retain(|k, _| labels.contains(k));
            self.on_stats_cc(now, links, out);
            self.on_stats_nak(now, links, out);
            return;
        }
        let labels: Vec<String> = links.iter().filter_map(|l| l["label"].as_str().map(|s| s.to_string())).collect();
        self.c17.retain(|k, _| labels.contains(k));
        self.c16.retain(|k, _| labels.contains(k));
        self.on_stats_cc(now, links, out);
        self.on_stats_nak(now, links, out);
        for l in links {
            let (Some(label), Some(connected), Some(weak)) = (l["label"].as_str(), l["connected"].as_bool(), l["weak"].as_bool()) else { continue };
            let reason = l["weak_reason"].as_str().unwrap_or("");
            if !connected {
                if weak {
                    out.violate("C17.weak_when_unjudgeable", "disconnected_whole_loop", now, format!("{label} reported weak ({reason}) while disconnected (real loop)"));
                }
                self.c17.remove(label);
                continue;
            }
            let h = self.c17.entry(label.to_string()).or_insert((0, 0));
            let share_weak = weak && matches!(reason, "low_share" | "no_traffic");
            if h.1 > 0 {
                out.probe("w.c17.probation_tick");
                if weak {
                    out.violate("C17.probation", "not_honoured_whole_loop", now, format!("{label} is owed {} forced not-weak tick(s) after 15 share-weak verdicts but was reported weak ({reason}) (real loop)", h.1));
                }
                h.1 -= 1;
            }
            if share_weak {
                out.probe("w.c17.share_weak_tick");
                h.0 += 1;
                if h.0 > 15 {
                    out.violate("C17.probation", "run_too_long_whole_loop", now, format!("{label}: {} consecutive share-weak verdicts without a probation (real loop)", h.0));
                    h.0 = 0;
                } else if h.0 == 15 {
                    out.probe("w.c17.probation_armed");
                    h.1 = 3;
                    h.0 = 0;
                }
            } else {
                h.0 = 0;
            }
        }
    }

    /// C05 on what the real loop publishes: after a NAK for a number that went out on two paths, the
    /// only window that may have dropped is the one of the path that carried the last copy.
    fn on_stats_nak(&mut self, now: u64, links: &[serde_json::Value], out: &mut MonOut) {
        let cur: HashMap<String, i64> = links.iter().filter_map(|l| Some((l["label"].as_str()?.to_string(), l["window"].as_i64()?))).collect();
        if let Some((t, owner, sq)) = self.pending_nak
            && now > t
        {
            let via = format!(" via {}", crate::lsim::path_ip(owner));
            for (label, w) in &cur {
                if let Some(p) = self.prev_windows.get(label)
                    && *w < *p
                {
                    out.probe("w.c05.charge_observed");
                    if !label.ends_with(&via) {
                        out.violate(
                            "C05.attribution",
                            "charged_non_owner_whole_loop",
                            now,
                            format!("NAK for {sq} at {t}: the last copy left on path {owner} less than 5 s earlier, yet the window that dropped ({p} -> {w}) is the one of {label} (real loop)"),
                        );
                    }
                }
            }
            self.pending_nak = None;
        }
        self.prev_windows = cur;
    }

    /// C16 on what the real loop publishes every tick: range, no decrease outside a back-off or
    /// a drain entry, at most 6 % growth per tick once seeded, loss latch set / clear thresholds.
    fn on_stats_cc(&mut self, now: u64, links: &[serde_json::Value], out: &mut MonOut) {
        for l in links {
            let (Some(label), Some(tgt), Some(state)) = (l["label"].as_str(), l["cc_target_bps"].as_u64(), l["cc_state"].as_str()) else { continue };
            let avg = l["cc_loss_ewma"].as_f64().unwrap_or(0.0);
            let degraded = l["cc_loss_degraded"].as_bool().unwrap_or(false);
            out.probe("w.c16.link_tick");
            if !(100_000..=200_000_000).contains(&tgt) {
                out.violate("C16.bounds", "whole_loop", now, format!("{label}: published target {tgt} outside [100 kbit/s, 200 Mbit/s] (real loop)"));
            }
            let prev = self.c16.get(label).cloned();
            let mut cur = C16W { target: tgt, state: state.to_string(), seeded: prev.as_ref().is_some_and(|p| p.seeded), loss_degraded: degraded, high_since: prev.as_ref().and_then(|p| p.high_since) };
            if let Some(p) = &prev {
                if p.seeded {
                    if tgt < p.target {
                        let pt = p.target as f64;
                        let backoff_ok = state == "backing_off" && (tgt as f64) >= (pt * 0.85).floor().max(100_000.0) - 1.0;
                        let drain_ok = state == "drain" && p.state != "drain" && ((tgt as f64) - (pt * 0.75).floor().max(100_000.0)).abs() <= 1.0;
                        if backoff_ok || drain_ok {
                            out.probe("w.c16.decrease_judged");
                        } else {
                            out.violate("C16.decrease", "whole_loop", now, format!("{label}: published target {} -> {tgt} in state {state} (previous state {}): neither a x0.85 back-off nor a one-shot x0.75 drain entry (real loop)", p.target, p.state));
                        }
                    } else if tgt > p.target {
                        out.probe("w.c16.increase_judged");
                        if (tgt as f64) > (p.target as f64 * 1.06).floor() + 1.0 {
                            out.violate("C16.growth", "whole_loop", now, format!("{label}: published target {} -> {tgt} in one tick (> 6 %), state {state} (real loop)", p.target));
                        }
                    }
                } else if tgt > 100_000 {
                    cur.seeded = true;
                    out.probe("w.c16.seeded");
                }
                if !p.loss_degraded && degraded {
                    let ok = avg > 0.55 && p.high_since.is_some_and(|h| now.saturating_sub(h) >= 3_990);
                    out.probe("w.c16.loss_latch_set");
                    if !ok {
                        out.violate("C16.loss_latch", "set_early_whole_loop", now, format!("{label}: loss-degraded latched with loss average {avg:.3}, above 0.55 for {:?} ms (real loop)", p.high_since.map(|h| now - h)));
                    }
                }
                if p.loss_degraded && !degraded && !(avg < 0.25) {
                    out.violate("C16.loss_latch", "cleared_early_whole_loop", now, format!("{label}: loss-degraded cleared with loss average {avg:.3} (needs < 0.25) (real loop)"));
                }
            } else if tgt > 100_000 {
                cur.seeded = true;
            }
            if avg > 0.55 {
                cur.high_since.get_or_insert(now);
            } else {
                cur.high_since = None;
            }
            self.c16.insert(label.to_string(), cur);
        }
    }

    /// SIGHUP with the file holding `text` (None: no file).
    fn on_reload(&mut self, now: u64, text: Option<&str>, paths: &[(std::net::IpAddr, usize)], out: &mut MonOut) {
        out.probe("w.c19.sighup");
        if self.reload.is_some() {
            // a second SIGHUP before the first was applied: which list wins depends on the tick
            // phase, which the wire does not show - C19 is not judged in the rest of this run
            self.c19_off = true;
        }
        if self.c19_off {
            self.reload = None;
            self.last_reload_ts = None;
            self.dead_since.clear();
            return;
        }
        self.last_reload_ts = Some(now);
        let list: Vec<usize> = {
            let mut v: Vec<usize> = Vec::new();
            for ip in text.map(parsable_lines).unwrap_or_default() {
                if let Some((_, p)) = paths.iter().find(|(i, _)| *i == ip)
                    && !v.contains(p)
                {
                    v.push(*p);
                }
            }
            v
        };
        if list.is_empty() {
            out.probe("w.c19.refused");
            return;
        }
        out.probe("w.c19.accepted");
        // "new" is an address without an uplink - whether it was never listed or its uplink could
        // not be created earlier (bind failure); addresses whose bind fails right now are not judged
        let added: Vec<usize> = list.iter().copied().filter(|p| !self.has_socket.contains(p) && !self.bind_fail.contains(p)).collect();
        let removed: Vec<usize> = self.active.iter().copied().filter(|p| !list.contains(p)).collect();
        let survivors: Vec<usize> = self.active.iter().copied().filter(|p| list.contains(p) && self.has_socket.contains(p)).collect();
        if list.iter().any(|p| !self.has_socket.contains(p) && self.active.contains(p)) {
            out.probe("w.c19.listed_address_without_uplink");
        }
        if !removed.is_empty() {
            self.reload_windows.push((now, now + 1030));
            out.probe("w.c19.removal");
        }
        if !added.is_empty() {
            out.probe("w.c19.addition");
        }
        self.reload = Some(ReloadW { ts: now, deadline: now + 1030, list, added, removed, survivors, binds_seen: HashMap::new() });
    }

    fn on_wire(&mut self, w: &WireSend, out: &mut MonOut) {
        let Some(path) = w.path else { return };
        self.last_send.insert(path, w.t);
        if let Some(d) = self.dead_since.get(&path)
            && w.t > *d
        {
            out.violate(&format!("{M19}.removed"), "still_sending_whole_loop", w.t, format!("path {path} was removed by the reload applied by {d} but its socket still sends (real loop)"));
            self.dead_since.remove(&path);
        }
        match w.call {
            UplinkCall::Send => {
                if ptype(&w.offered[0]) == Some(T_KEEPALIVE) {
                    // cadence while the link is usable
                    if let (Some(prev), true) = (self.last_ka.get(&path), self.registered.contains_key(&path)) {
                        let gap = w.t - prev;
                        let heard_recently = self.heard.get(&path).is_some_and(|h| w.t.saturating_sub(*h) < 3000);
                        if gap > 2002 && heard_recently {
                            out.violate(&format!("{M14}.cadence"), "whole_loop", w.t, format!("path {path}: {gap} ms between keepalives on a live uplink (real loop)"));
                        }
                        out.probe("w.keepalive_gap_judged");
                    }
                    self.last_ka.insert(path, w.t);
                    // In classic mode nothing but ACKs, NAKs and resets moves a window: two
                    // consecutive keepalives of a link with no feedback in between report the same.
                    if let Some(info) = crate::mon::refcodec::keepalive_info(&w.offered[0]) {
                        if let (Some(since), Some((pt, pw))) = (self.classic_since, self.ka_window.get(&path).copied())
                            && pt > since
                            && self.last_feedback + 1 < pt
                        {
                            out.probe("w.classic_tick_judged");
                            if info.window != pw {
                                for m in ["C06.classic_tick", "C10.window"] {
                                    out.violate(m, "whole_loop", w.t, format!("path {path}: classic mode since {since}, no ACK / NAK since {}, yet the window reported by consecutive keepalives moved {pw} -> {} (real loop)", self.last_feedback, info.window));
                                }
                            }
                        }
                        self.ka_window.insert(path, (w.t, info.window));
                    }
                } else {
                    // REG1 / REG2 on the wire: a (re-)registration is in progress somewhere
                    self.resets.push(w.t);
                    self.last_ka.remove(&path);
                }
            }
            UplinkCall::SendBatch => {
                let k = match w.result {
                    Ok(k) => k.min(w.offered.len()),
                    Err(_) => 0,
                };
                out.probe("w.flush");
                self.paths_seen.insert(path);
                if self.seq_paths.len() < 50_000 {
                    for d in w.offered.iter().take(k) {
                        if let Some(sq) = data_seq(d) {
                            self.seq_paths.entry(sq).or_default().push((w.t, path));
                        }
                    }
                }
                for d in w.offered.iter().take(k) {
                    match self.accepted.get(d) {
                        Some((idx, _)) => {
                            let last = self.last_idx_on_path.entry(path).or_insert(0);
                            if *idx < *last {
                                out.violate(&format!("{M1}.wire_mismatch"), "order_whole_loop", w.t, format!("path {path}: datagram #{idx} sent after #{last} (real loop)"));
                            }
                            *last = (*last).max(*idx);
                            let c = self.copies.entry(d.clone()).or_default();
                            if c.contains(&path) {
                                out.violate(&format!("{M1}.wire_mismatch"), "twice_whole_loop", w.t, format!("path {path}: datagram #{idx} sent twice on one uplink (real loop)"));
                            }
                            c.push(path);
                            if c.len() > 1 {
                                // extra copy: at most one per 100 routed data packets per gated uplink.
                                // Which of the copies is the probe cannot be told on the wire, so the
                                // budget is checked in aggregate at the end of the run.
                                self.extra_total += 1;
                                out.probe("w.duplicate_copy");
                            }
                            self.on_wire.insert(d.clone());
                        }
                        None => {
                            // not judged (sent while nothing was usable) or not a client datagram at all
                        }
                    }
                }
            }
        }
    }

    fn on_deliver_to_sender(&mut self, now: u64, path: usize, bytes: &[u8], out: &mut MonOut) {
        match ptype(bytes) {
            Some(T_REG3) => {
                self.ka_window.remove(&path);
                self.registered.insert(path, now);
                self.heard.insert(path, now);
                self.any_reg3 = true;
                self.resets.push(now);
            }
            Some(T_REG_ERR) => {
                self.registered.remove(&path);
                self.heard.remove(&path);
                // the link is unusable from this instant: a datagram accepted in the same
                // millisecond may legitimately find no uplink
                self.resets.push(now);
            }
            Some(T_REG2) | Some(T_REG_NGP) | None => {}
            Some(t) => {
                self.heard.insert(path, now);
                if matches!(t, 0x8002 | 0x8003 | T_SRTLA_ACK) {
                    self.last_feedback = now;
                }
                if t == 0x8003 && bytes.len() == 8 {
                    // a single-number NAK for a packet that went out on two paths within the last
                    // 5 s: the sender remembers the path of the last copy
                    let sq = u32::from_be_bytes([bytes[4], bytes[5], bytes[6], bytes[7]]) & 0x7FFF_FFFF;
                    if let Some(copies) = self.seq_paths.get(&sq) {
                        let recent: Vec<&(u64, usize)> = copies.iter().filter(|(t0, _)| now.saturating_sub(*t0) <= 4_900).collect();
                        let mut paths: Vec<usize> = recent.iter().map(|c| c.1).collect();
                        paths.sort_unstable();
                        paths.dedup();
                        if paths.len() >= 2 && let Some(last) = recent.last() {
                            self.pending_nak = Some((now, last.1, sq));
                            out.probe("w.c05.nak_for_a_number_on_two_paths");
                        }
                    }
                }
                if !internal(t) && self.client_known_at.is_some_and(|c| c < now) {
                    self.relay_pending.push((bytes.to_vec(), now));
                    out.probe("w.relayable");
                }
            }
        }
    }

    fn on_new_socket(&mut self, now: u64, path: usize, v6: bool, out: &mut MonOut) {
        let heard_recently = self.heard.get(&path).is_some_and(|h| now.saturating_sub(*h) < 1500);
        // C08 on the wire: no send fault is ever injected in whole-loop runs, so a registered
        // uplink's socket is replaced only after it has heard nothing for the configured timeout
        if let (Some(h), true) = (self.heard.get(&path), self.registered.contains_key(&path)) {
            let silent = now.saturating_sub(*h);
            out.probe("w.c08.socket_replaced_on_registered_link");
            if silent + 200 < self.timeout_ms && !self.reload.as_ref().is_some_and(|r| r.removed.contains(&path) || r.added.contains(&path)) {
                out.violate("C08.teardown_cause", "healthy_link_whole_loop", now, format!("path {path}: socket replaced although the uplink was heard {silent} ms ago (timeout {} ms, no send fault injected; real loop)", self.timeout_ms));
            }
        }
        match self.reload.as_mut() {
            Some(r) if r.added.contains(&path) => {
                *r.binds_seen.entry(path).or_insert(0) += 1;
            }
            Some(r) if r.survivors.contains(&path) && heard_recently && now >= r.ts => {
                out.violate(&format!("{M19}.survivor"), "recreated_whole_loop", now, format!("path {path} is in the old and the new list and was heard {} ms ago, yet its socket was re-created (real loop)", now - self.heard[&path]));
            }
            Some(r) if r.removed.contains(&path) => {}
            _ if !self.active.contains(&path) && !v6 && !self.active.is_empty() && !self.c19_off => {
                out.violate(&format!("{M19}.applied"), "unlisted_bind_whole_loop", now, format!("a socket was bound for path {path}, which is not in the uplink list {:?} (real loop)", self.active));
            }
            _ => {}
        }
        self.has_socket.insert(path);
        self.dead_since.remove(&path);
        self.ka_window.remove(&path);
        let via = format!(" via {}", crate::lsim::path_ip(path));
        self.c17.retain(|k, _| !k.ends_with(&via));
        let _ = &self.c16; // (the controller's state outlives a reconnect: history is kept)
        self.registered.remove(&path);
        self.heard.remove(&path);
        self.last_ka.remove(&path);
        self.resets.push(now);
    }

    fn on_client_out(&mut self, c: &ClientOut, out: &mut MonOut) {
        if c.result.is_err() {
            return;
        }
        if let Some(pos) = self.relay_pending.iter().position(|(b, _)| *b == c.bytes) {
            self.relay_pending.remove(pos);
            return;
        }
        if let Some(t) = ptype(&c.bytes)
            && internal(t)
        {
            out.violate(&format!("{M9}.relay"), "internal_leaked_whole_loop", c.t, format!("client was handed an SRTLA-internal datagram of type {t:x} (real loop)"));
        }
        // a second copy of an already relayed datagram (ACK fast path + relay list) is fine
    }

    /// Called after every settle: deadlines.
    fn check_deadlines(&mut self, now: u64, out: &mut MonOut) {
        while let Some((_, _, t)) = self.pending.front() {
            if now.saturating_sub(*t) <= 18 {
                break;
            }
            let (bytes, idx, t) = self.pending.pop_front().unwrap();
            if self.on_wire.contains(&bytes) {
                continue;
            }
            let excused = self.resets.iter().any(|r| *r + 50 >= t && *r <= now)
                || self.reload_windows.iter().any(|(a, b)| *a <= t + 18 && t <= *b);
            if excused {
                out.stats.inc("w.excused_by_reset");
            } else {
                out.violate(
                    &format!("{M1}.hold_bound"),
                    "whole_loop",
                    now,
                    format!("client datagram #{idx} accepted at {t} is not on any uplink {} ms later (real loop, no fault on the send path)", now - t),
                );
            }
        }
        let mut i = 0;
        while i < self.relay_pending.len() {
            if now.saturating_sub(self.relay_pending[i].1) > 3 {
                let (b, t) = self.relay_pending.remove(i);
                out.violate(&format!("{M9}.relay"), "not_delivered_whole_loop", now, format!("{}-byte uplink datagram of type {:x?} delivered at {t} never reached the client (real loop)", b.len(), ptype(&b)));
            } else {
                i += 1;
            }
        }
        // ---- C19: the reload is applied by the next housekeeping tick ----
        if self.reload.as_ref().is_some_and(|r| now > r.deadline) {
            let r = self.reload.take().unwrap();
            for p in &r.added {
                let n = r.binds_seen.get(p).copied().unwrap_or(0);
                if n != 1 && !self.v6_paths.contains(p) && !self.bind_fail.contains(p) {
                    out.violate(
                        &format!("{M19}.applied"),
                        if n == 0 { "addition_missing_whole_loop" } else { "added_twice_whole_loop" },
                        now,
                        format!("reload at {}: path {p} is new in the list; {n} sockets were bound for it by {} (real loop)", r.ts, r.deadline),
                    );
                }
            }
            for p in &r.removed {
                self.has_socket.remove(p);
                self.dead_since.insert(*p, r.deadline);
                self.registered.remove(p);
                self.heard.remove(p);
                self.last_ka.remove(p);
            }
            self.active = r.list.clone();
            out.probe("w.c19.applied");
        }
        // a link the list keeps (or a refused reload leaves alone) does not fall silent
        if let Some(ts) = self.last_reload_ts
            && now > ts + 1100
            && now < ts + 4000
            && self.reload.is_none()
        {
            for p in &self.active {
                let heard = self.heard.get(p).is_some_and(|h| now.saturating_sub(*h) < 1500);
                if heard
                    && self.registered.contains_key(p)
                    && let Some(ls) = self.last_send.get(p)
                    && now.saturating_sub(*ls) > 2500
                {
                    out.violate(&format!("{M19}.survivor"), "silent_whole_loop", now, format!("path {p} is in the uplink list and hears the receiver, but has sent nothing for {} ms after the reload at {ts} (real loop)", now - ls));
                    self.last_send.insert(*p, now);
                }
            }
        }
        let budget = self.paths_seen.len() as u64 * (self.data_routed / 100 + 1);
        if self.extra_total > budget {
            out.violate(
                &format!("{M1}.extra_copy"),
                "budget_whole_loop",
                now,
                format!("{} duplicate copies for {} routed data packets on {} uplinks (real loop)", self.extra_total, self.data_routed, self.paths_seen.len()),
            );
            self.extra_total = 0;
        }
        if self.resets.len() > 64 {
            let cut = self.resets.len() - 64;
            self.resets.drain(..cut);
        }
    }
}

/// Execute an L plan on the real loop. Only fault kinds that keep the send path
/// healthy are honoured (network loss / delay / black holes, receiver restarts,
/// injected uplink datagrams, critical windows); others are ignored here.
pub fn execute(plan: &LPlan, want_excerpt: bool) -> RunOutcome {
    clear_thread_seams();
    let mut seed_bytes = [0u8; 32];
    Rng::new(hash3(plan.seed, 0x5EED, 0)).fill(&mut seed_bytes);
    let rt = tokio::runtime::Builder::new_current_thread()
        .enable_all()
        .start_paused(true)
        .rng_seed(tokio::runtime::RngSeed::from_bytes(&seed_bytes))
        .build()
        .expect("tokio runtime");
    let local = tokio::task::LocalSet::new();
    let outcome = local.block_on(&rt, run(plan, want_excerpt));
    drop(local);
    drop(rt);
    clear_thread_seams();
    START.with(|s| s.set(None));
    outcome
}

async fn run(plan: &LPlan, want_excerpt: bool) -> RunOutcome {
    let seam = SeamHandle::new();
    install_interceptors(&seam);
    let mut id_rng = Rng::new(hash3(plan.seed, 0x1D5, 0));
    core_hooks::set_byte_source(Some(Box::new(move |buf| id_rng.fill(buf))));
    let mut cid_rng = Rng::new(hash3(plan.seed, 0x1D6, 0));
    let seam_ids = seam.clone();
    sh::set_conn_id_source(Some(Box::new(move || {
        let id = cid_rng.next_u64() | 1;
        // connect_uplink binds the socket first and draws the id right after
        seam_ids.with(|s| {
            if let Some((fd, p)) = s.last_bound {
                s.path_conn[p] = Some(id);
                s.fd_conn.insert(fd, id);
            }
        });
        id
    })));
    BASE_MS.with(|b| b.set(plan.time_base_ms));
    START.with(|s| s.set(Some(Instant::now())));
    core_hooks::set_clock_fn(Some(tokio_now_ms));
    let lq = net_hooks::ListenerQueue::new();
    net_hooks::set_listener_source(Some(lq.clone()));
    let sighup = Arc::new(tokio::sync::Notify::new());
    net_hooks::set_sighup_source(Some(sighup.clone()));
    seam.with(|s| {
        for i in 0..8 {
            s.path_for_ip(crate::lsim::path_ip(i));
        }
    });
    let mut early_bind_fail: Vec<usize> = Vec::new();
    for a in plan.actions.iter().filter(|a| a.t == 0) {
        if let Action::BindFail { link, on: true } = &a.kind {
            let p = seam.with(|s| {
                let p = s.path_for_ip(crate::lsim::path_ip(*link));
                s.bind_fail[p] = true;
                p
            });
            early_bind_fail.push(p);
        }
    }
    let ips_file = format!("/tmp/verif-wips-{}-{:?}.txt", std::process::id(), std::thread::current().id()).replace(['(', ')'], "");
    let text: String = plan.initial_ips().iter().map(|ip| format!("{ip}\n")).collect();
    let _ = std::fs::write(&ips_file, text);
    let binder: Arc<dyn UplinkBinder> = Arc::new(SimBinder { seam: seam.clone() });
    let cfg = &plan.cfg;
    let config = DynamicConfig::from_cli(
        if cfg.classic { srtla_core::SchedulingMode::Classic } else { srtla_core::SchedulingMode::Enhanced },
        !cfg.quality,
        !cfg.stall_guard,
        cfg.stall_min_in_flight,
        cfg.stall_ack_stale_ms,
        cfg.conn_timeout_ms,
    );
    let stats = srtla_send::stats::SharedStats::new();
    let critical = srtla_core::priority::CriticalWindow::new();
    let hub = srtla_send::subscriptions::SubscriptionHub::new();
    let file2 = ips_file.clone();
    let (c2, s2, cw2, h2) = (config.clone(), stats.clone(), critical.clone(), hub.clone());
    let loop_task = tokio::task::spawn_local(async move {
        let _ = srtla_send::sender::run_sender_with_config(0, "127.0.0.1", crate::lsim::RECEIVER_PORT, &file2, c2, s2, cw2, h2, binder).await;
    });
    // let the loop start up (connect uplinks, probe, first housekeeping)
    for _ in 0..50 {
        tokio::task::yield_now().await;
    }
    let uplink_tx = sh::take_uplink_channel();
    let mut out = MonOut::default();
    let mut stats_c = Stats::default();
    let Some(uplink_tx) = uplink_tx else {
        out.violate("W.harness", "", 0, "the real loop did not reach its uplink channel".into());
        return RunOutcome { violations: out.violations, ..Default::default() };
    };
    let (stats_tx, mut stats_rx) = tokio::sync::mpsc::channel::<String>(4096);
    let _stats_sub = hub.subscribe("stats", stats_tx).await;
    // in every second run a control client that subscribed to the statistics and never reads:
    // its one-slot channel is full after the first tick and stays full
    let (stall_tx, _stalled_subscriber) = tokio::sync::mpsc::channel::<String>(1);
    let stalled = hash3(plan.seed, 0x57A1, 0) % 2 == 0;
    if stalled {
        let _ = hub.subscribe("stats", stall_tx).await;
    }
    let mut env = Env::new(plan);
    let mut mon = WMon::default();
    if stalled {
        stats_c.inc("fault.stalled_stats_subscriber");
    }
    mon.timeout_ms = plan.cfg.conn_timeout_ms;
    mon.classic_since = plan.cfg.classic.then_some(plan.time_base_ms);
    mon.bind_fail = early_bind_fail.iter().copied().collect();
    mon.has_socket = seam.with(|s| (0..s.path_gen.len()).filter(|p| s.path_gen[*p] > 0).collect());
    mon.active = seam.with(|s| plan.initial_ips().iter().map(|ip| s.path_for_ip(*ip)).collect());
    let client_addr: SocketAddr = "127.0.0.1:40000".parse().unwrap();
    let start_ms = plan.time_base_ms;
    let mut q: BinaryHeap<std::cmp::Reverse<Timed>> = BinaryHeap::new();
    let mut evseq = 0u64;
    let mut push = |q: &mut BinaryHeap<std::cmp::Reverse<Timed>>, t: u64, ev: Ev| {
        evseq += 1;
        q.push(std::cmp::Reverse(Timed { t, seq: evseq, ev }));
    };
    for (i, a) in plan.actions.iter().enumerate() {
        push(&mut q, start_ms + a.t, Ev::Action(i));
    }
    push(&mut q, start_ms + 5, Ev::ReceiverTimer);
    let end = start_ms + plan.horizon_ms;
    let mut log = LogHash::default();
    let mut excerpt: Vec<String> = Vec::new();
    let mut gens: Vec<u64> = seam.with(|s| s.path_gen.clone());
    let timeout = cfg.conn_timeout_ms;
    let mut injected_client = 0u64;
    loop {
        let now = tokio_now_ms();
        if now >= end || loop_task.is_finished() {
            break;
        }
        // ---- due environment events ----
        while let Some(std::cmp::Reverse(top)) = q.peek() {
            if top.t > now {
                break;
            }
            let std::cmp::Reverse(Timed { ev, .. }) = q.pop().unwrap();
            match ev {
                Ev::ClientEmit(bytes) => {
                    mon.on_client_inject(now, &bytes, timeout, &mut out);
                    if want_excerpt && excerpt.len() < 100_000 {
                        excerpt.push(format!("#{now} t={now} client emits {} bytes seq={:?} judged={:?}", bytes.len(), data_seq(&bytes), mon.accepted.get(&bytes).map(|a| a.0)));
                    }
                    lq.push(Ok((bytes, client_addr)));
                    injected_client += 1;
                }
                Ev::ToSender { path, sgen, bytes } => {
                    let (cur, fd) = seam.with(|s| (s.path_gen[path], s.path_fd[path]));
                    if cur != sgen || bytes.is_empty() {
                        continue;
                    }
                    // the reader task of the connection that owns this socket: conn ids are not
                    // visible from outside the loop, so the id is recovered from the keepalive
                    // telemetry / from the order of creation kept by the seam (see conn_of_fd)
                    if let Some(conn_id) = seam.with(|s| s.fd_conn.get(&fd).copied()) {
                        mon.on_deliver_to_sender(now, path, &bytes, &mut out);
                        if want_excerpt && excerpt.len() < 100_000 {
                            excerpt.push(format!("#{now} t={now} to sender on p{path}: type {:x?} {} bytes", ptype(&bytes), bytes.len()));
                        }
                        let _ = uplink_tx.send(sh::UplinkPacket { conn_id, bytes: SmallVec::from_slice_copy(&bytes) });
                    } else {
                        stats_c.inc("w.dropped_unknown_conn");
                    }
                }
                Ev::ToReceiver { path, sgen, bytes } => {
                    for (p, g, b) in env.receiver_rx(now, path, sgen, &bytes) {
                        for (t, b) in env.net_transit(plan.seed, p, NetDir::Down, now, b, &mut stats_c) {
                            push(&mut q, t, Ev::ToSender { path: p, sgen: g, bytes: b });
                        }
                    }
                }
                Ev::Action(i) => {
                    let a = &plan.actions[i];
                    match &a.kind {
                        Action::Burst { .. } | Action::Rexmit { .. } | Action::ClientControl { .. } | Action::ClientRaw { .. } => {
                            for (dt, bytes) in env.client_action(now, &a.kind) {
                                push(&mut q, now + dt, Ev::ClientEmit(bytes));
                            }
                        }
                        Action::Blackhole { link, up, down, on } => env.set_blackhole(*link, *up, *down, *on),
                        Action::LinkLoss { link, on } => env.set_blackhole(*link, true, true, *on),
                        Action::ReceiverRestart => env.receiver_restart(),
                        Action::ReceiverMode { mode } => env.set_receiver_mode(mode),
                        Action::Inject { link, hex, delay } => {
                            if let Some(bytes) = crate::lsim::plan::unhex(hex) {
                                let sgen = seam.with(|s| s.path_gen.get(*link).copied().unwrap_or(0));
                                push(&mut q, now + delay, Ev::ToSender { path: *link, sgen, bytes });
                            }
                        }
                        Action::Critical { ms } => critical.extend_to(now + ms),
                        Action::BindFail { link, on } if a.t > 0 || !*on => {
                            let p = seam.with(|s| {
                                let p = s.path_for_ip(crate::lsim::path_ip(*link));
                                s.bind_fail[p] = *on;
                                p
                            });
                            if *on {
                                mon.bind_fail.insert(p);
                                stats_c.inc("fault.bind_failure_armed");
                            } else {
                                mon.bind_fail.remove(&p);
                            }
                        }
                        // only mode switches are honoured here: the wire monitors assume the
                        // liveness timeout and the guard thresholds of the plan
                        Action::Control { line } if line.contains("set_mode") => {
                            let _ = srtla_send::control::dispatch(&config, Some(&stats), Some(&critical), line);
                            stats_c.inc("fault.runtime_config_change");
                            let classic = config.mode().is_classic();
                            mon.classic_since = match (classic, mon.classic_since) {
                                (true, None) => Some(now),
                                (true, s) => s,
                                (false, _) => None,
                            };
                        }
                        Action::Reload { text } => {
                            match text {
                                Some(t) => {
                                    let _ = std::fs::write(&ips_file, t);
                                }
                                None => {
                                    let _ = std::fs::remove_file(&ips_file);
                                }
                            }
                            let paths: Vec<(std::net::IpAddr, usize)> = seam.with(|s| {
                                text.as_deref().map(parsable_lines).unwrap_or_default().into_iter().map(|ip| (ip, s.path_for_ip(ip))).collect()
                            });
                            for (ip, p) in &paths {
                                if ip.is_ipv6() && !mon.v6_paths.contains(p) {
                                    mon.v6_paths.push(*p);
                                }
                            }
                            mon.on_reload(now, text.as_deref(), &paths, &mut out);
                            stats_c.inc("fault.sighup_reload");
                            sighup.notify_one();
                        }
                        _ => {}
                    }
                }
                Ev::ReceiverTimer => {
                    for (p, g, b) in env.receiver_timer(now) {
                        for (t, b) in env.net_transit(plan.seed, p, NetDir::Down, now, b, &mut stats_c) {
                            push(&mut q, t, Ev::ToSender { path: p, sgen: g, bytes: b });
                        }
                    }
                    push(&mut q, now + plan.recv.timer_ms.max(1), Ev::ReceiverTimer);
                }
                Ev::ClientTimer(_) => {}
            }
        }
        // ---- let the real loop run until it is idle again ----
        for _ in 0..200 {
            tokio::task::yield_now().await;
            if lq.taken.load(Ordering::SeqCst) >= injected_client && lq.queue.lock().unwrap().is_empty() {
                break;
            }
        }
        for _ in 0..6 {
            tokio::task::yield_now().await;
        }
        // ---- collect what it wrote ----
        let now = tokio_now_ms();
        let new_gens: Vec<u64> = seam.with(|s| s.path_gen.clone());
        for (p, g) in new_gens.iter().enumerate() {
            if gens.get(p).copied().unwrap_or(0) != *g {
                let v6 = mon.v6_paths.contains(&p);
                mon.on_new_socket(now, p, v6, &mut out);
            }
        }
        gens = new_gens;
        let (wire, client_out) = seam.with(|s| {
            for w in s.wire.iter_mut() {
                if w.path.is_none() {
                    w.path = s.fd_path.get(&w.fd).copied();
                }
                // learn conn ids from keepalive telemetry is impossible before REG3; instead the
                // seam records the order of socket creation (see SimBinder) and the conn-id source
                // hands out ids in the same order.
            }
            (std::mem::take(&mut s.wire), std::mem::take(&mut s.client))
        });
        for w in &wire {
            mon.on_wire(w, &mut out);
            log.u64(w.t);
            log.u64(w.path.map(|p| p as u64 + 1).unwrap_or(0));
            for d in &w.offered {
                log.bytes(d);
            }
            let Some(path) = w.path else { continue };
            let accepted = match (w.call, w.result) {
                (UplinkCall::Send, Ok(_)) => 1,
                (UplinkCall::SendBatch, Ok(k)) => k.min(w.offered.len()),
                _ => 0,
            };
            let sgen = seam.with(|s| if s.path_fd[path] == w.fd { s.path_gen[path] } else { 0 });
            for d in w.offered.iter().take(accepted) {
                for (t, b) in env.net_transit(plan.seed, path, NetDir::Up, w.t, d.clone(), &mut stats_c) {
                    push(&mut q, t.max(now), Ev::ToReceiver { path, sgen, bytes: b });
                }
            }
            if want_excerpt && excerpt.len() < 100_000 {
                excerpt.push(format!(
                    "#{} t={} wire p{} {:?} x{} -> {:?} judged={:?}",
                    w.t,
                    w.t,
                    path,
                    w.call,
                    w.offered.len(),
                    w.result,
                    w.offered.iter().map(|d| mon.accepted.get(d).map(|a| a.0).unwrap_or(0)).collect::<Vec<_>>()
                ));
            }
        }
        for c in &client_out {
            mon.on_client_out(c, &mut out);
            log.bytes(&c.bytes);
            if c.result.is_ok() {
                for (dt, bytes) in env.client_rx(now, &c.bytes) {
                    push(&mut q, now + dt, Ev::ClientEmit(bytes));
                }
            }
        }
        while let Ok(line) = stats_rx.try_recv() {
            mon.on_stats(now, &line, &mut out);
        }
        mon.check_deadlines(now, &mut out);
        if out.violations.len() >= 8 {
            break;
        }
        // ---- sleep to the next environment event, at most one virtual millisecond ----
        let next = q.peek().map(|r| r.0.t).unwrap_or(u64::MAX).min(now + 1).max(now + 1).min(end);
        stats_c.inc("w.wakes");
        tokio::time::sleep(Duration::from_millis(next - now)).await;
    }
    if loop_task.is_finished() {
        out.violate("W.loop_exited", "", tokio_now_ms(), "run_sender_with_config returned".into());
    }
    loop_task.abort();
    let _ = loop_task.await;
    let _ = std::fs::remove_file(&ips_file);
    let fired = seam.with(|s| s.fired.clone());
    stats_c.merge(&fired);
    stats_c.merge(&env.stats);
    stats_c.merge(&out.stats);
    stats_c.add("w.client_datagrams_judged", mon.n_accepted);
    let sim_time_ms = tokio_now_ms() - start_ms;
    RunOutcome {
        violations: out.violations,
        log_hash: log.0,
        nontrivial: out.nontrivial,
        inconclusive: false,
        stats: stats_c,
        states: Vec::new(),
        transitions: Vec::new(),
        excerpt,
        sim_time_ms,
    }
}
