//! Registry of property checks.

use serde_json::Value;

use crate::common::{Check, RunOutcome, Tier};
use crate::lsim::plan::{LPlan, Profile};
use crate::lsim::{self, Monitor};

pub type MonFactory = fn() -> Vec<Box<dyn Monitor>>;

/// A check decided by engine L: a scenario profile plus a set of monitors.
pub struct LCheck {
    pub id: &'static str,
    pub level: &'static str,
    pub profile: fn(u64) -> Profile,
    pub post: Option<fn(&mut LPlan, u64)>,
    pub monitors: MonFactory,
    pub quick_runs: u64,
    pub thorough_runs: u64,
    pub rule: &'static str,
    pub assumptions: &'static [&'static str],
    pub probes: &'static [&'static str],
}

pub const L_REAL: &[&str] = &[
    "srtla-core (all: connection state, selection, registration, congestion, CC, classifier)",
    "srtla-protocol (builders, parsers)",
    "sender shell: handle_srt_packet, forward_via_connection, send_stall_probes, send_connection_batch, flush_all_batches, handle_uplink_packet, drain_packet_queue, process_uplink_packet, process_connection_events, attribute_nak, handle_housekeeping, reconnect_uplink, connect_uplink/create_connections_from_ips, apply_connection_changes, analyze_ip_reload, SequenceTracker, send_all_datagrams, sync_readers, DynamicConfig, control::dispatch, CriticalWindow, SharedStats::update, SubscriptionHub::publish",
];

pub const L_STUB: &[&str] = &[
    "select! loop body of run_sender_with_config: mirrored call-for-call by the simulator (it owns timers, listener and signal stream)",
    "kernel UDP and recvmmsg reader tasks: uplink sockets are inert handles, datagrams cross an in-memory interceptor (hook H3) and the real uplink channel",
    "downstream client socket: in-memory wrapper (hook H4); the 3-line instant-ACK forwarding task is mirrored",
    "network, SRTLA receiver (written from srtla_rec behaviour) and SRT endpoint: seeded environment models",
    "process clock: thread-local virtual clock inside now_ms() (hook H1); rand::rng() ids: seeded (hooks H2/H5)",
];

impl Check for LCheck {
    fn id(&self) -> &'static str {
        self.id
    }
    fn engine(&self) -> &'static str {
        "L"
    }
    fn level(&self) -> &'static str {
        self.level
    }
    fn runs(&self, tier: Tier) -> u64 {
        match tier {
            Tier::Quick => self.quick_runs,
            Tier::Thorough => self.thorough_runs,
        }
    }
    fn generate(&self, run_seed: u64, index: u64, _tier: Tier) -> Value {
        let profile = (self.profile)(index);
        let mut plan = lsim::plan::generate(run_seed, &profile);
        if let Some(post) = self.post {
            post(&mut plan, run_seed);
        }
        plan.to_value()
    }
    fn execute(&self, plan: &Value, want_excerpt: bool) -> RunOutcome {
        let plan = match LPlan::from_value(plan) {
            Ok(p) => p,
            Err(e) => panic!("{e}"),
        };
        lsim::execute(&plan, (self.monitors)(), want_excerpt)
    }
    fn shrink(&self, plan: &Value) -> Vec<Value> {
        match LPlan::from_value(plan) {
            Ok(p) => lsim::plan::shrink(&p).into_iter().map(|p| p.to_value()).collect(),
            Err(_) => Vec::new(),
        }
    }
    fn rule(&self) -> String {
        self.rule.to_string()
    }
    fn assumptions(&self) -> Vec<String> {
        self.assumptions.iter().map(|s| s.to_string()).collect()
    }
    fn real_components(&self) -> Vec<String> {
        L_REAL.iter().map(|s| s.to_string()).collect()
    }
    fn stub_components(&self) -> Vec<String> {
        L_STUB.iter().map(|s| s.to_string()).collect()
    }
    fn expected_probes(&self) -> Vec<&'static str> {
        self.probes.to_vec()
    }
    fn sample_view(&self, plan: &Value) -> Value {
        // Keep samples readable: abridge the action list.
        let mut v = plan.clone();
        if let Some(a) = v.get_mut("actions").and_then(|a| a.as_array_mut())
            && a.len() > 12
        {
            let n = a.len();
            a.truncate(12);
            a.push(serde_json::json!(format!("... {} more actions", n - 12)));
        }
        v
    }
}

fn c01_profile(index: u64) -> Profile {
    let mut p = Profile::base("c01");
    p.net_loss = true;
    p.blackholes = true;
    p.link_loss = true;
    p.send_faults = true;
    p.stalls = true;
    p.reloads = index % 5 == 4;
    p.receiver_restart = index % 3 == 2;
    p.timeouts = true;
    p.heavy_rate_bias = index % 2 == 0;
    p.low_stall_threshold_bias = true;
    p.horizon_hi_ms = 16_000;
    p
}

/// Highest sequence offset the client will have used by the end of the plan.
fn seq_span(plan: &LPlan) -> u64 {
    plan.actions
        .iter()
        .map(|a| match &a.kind {
            crate::lsim::plan::Action::Burst { n, stride, .. } => *n as u64 * *stride as u64,
            _ => 0,
        })
        .sum()
}

fn traffic_window(plan: &LPlan) -> (u64, u64) {
    let ts: Vec<u64> = plan
        .actions
        .iter()
        .filter(|a| matches!(a.kind, crate::lsim::plan::Action::Burst { .. }))
        .map(|a| a.t)
        .collect();
    let lo = ts.iter().copied().min().unwrap_or(3000);
    (lo, plan.horizon_ms.max(lo + 1))
}

/// Forged-but-well-formed receiver traffic around the client's sequence space:
/// cumulative ACKs (stale, duplicate, far ahead), SRTLA ACK lists on any link,
/// NAK singles and ranges (known, unknown, repeated).
fn inject_ack_nak_noise(plan: &mut LPlan, seed: u64, n_lo: u64, n_hi: u64) {
    use crate::lsim::env::{build_nak, build_srt_ack};
    use crate::lsim::plan::{Action, TimedAction, hex};
    let mut r = crate::prng::Rng::new(seed ^ 0xACC0);
    let span = seq_span(plan).max(10);
    let (lo, hi) = traffic_window(plan);
    let base = plan.client.start_seq as u64;
    let k = r.range(n_lo, n_hi);
    for _ in 0..k {
        let t = r.range(lo, hi);
        let link = r.below(plan.n_links as u64) as usize;
        let near = |r: &mut crate::prng::Rng| -> u32 {
            let off = match r.below(6) {
                0 => r.range(0, span + 300),
                1 => span + r.range(64, 5000),
                _ => r.range(0, span),
            };
            ((base + off) & 0x7FFF_FFFF) as u32
        };
        let bytes = match r.below(4) {
            0 => build_srt_ack(near(&mut r), r.below(1000) as u32),
            1 => {
                let mut p = vec![0x91, 0, 0, 0];
                for _ in 0..r.range(1, 6) {
                    p.extend_from_slice(&near(&mut r).to_be_bytes());
                }
                p
            }
            2 => {
                let a = near(&mut r);
                let mut list: Vec<u32> = (0..r.range(1, 5)).map(|i| a + i as u32).collect();
                if r.chance(0.3) {
                    list.push(a);
                }
                if r.chance(0.3) {
                    list.push(near(&mut r));
                }
                build_nak(&list)
            }
            _ => {
                // explicit range entry, possibly wide
                let a = near(&mut r);
                let w = *r.pick(&[0u32, 1, 3, 40, 900, 3000]);
                let mut p = vec![0x80, 0x03, 0, 0];
                p.extend_from_slice(&(a | 0x8000_0000).to_be_bytes());
                p.extend_from_slice(&(a + w).to_be_bytes());
                p
            }
        };
        plan.actions.push(TimedAction {
            t,
            kind: Action::Inject {
                link,
                hex: hex(&bytes),
                delay: r.range(0, 30),
            },
        });
    }
    plan.actions.sort_by_key(|a| a.t);
}

fn c02_profile(index: u64) -> Profile {
    let mut p = Profile::base("c02");
    p.p_fault_free = 0.3;
    p.net_loss = true;
    p.blackholes = true;
    p.link_loss = index % 2 == 0;
    p.receiver_restart = index % 4 == 3;
    p.timeouts = true;
    p.low_stall_threshold_bias = true;
    p.collisions = index % 3 == 0;
    p.horizon_hi_ms = 14_000;
    p
}

/// Runt datagrams (1..3 bytes) from the SRT endpoint, data-like (first byte below 0x80) and
/// control-like, inside the traffic: too short to carry a sequence number, whatever the receive
/// buffer still holds from the previous datagram.
fn sprinkle_client_runts(plan: &mut LPlan, seed: u64) {
    use crate::lsim::plan::{Action, TimedAction, hex};
    let mut r = crate::prng::Rng::new(seed ^ 0x4A17);
    if r.chance(0.4) {
        let (lo, hi) = traffic_window(plan);
        for _ in 0..r.range(1, 8) {
            let mut b = vec![0u8; r.range(1, 3) as usize];
            r.fill(&mut b);
            if r.chance(0.7) {
                b[0] &= 0x7F;
            }
            plan.actions.push(TimedAction { t: r.range(lo + 50, hi.max(lo + 51)), kind: Action::ClientRaw { hex: hex(&b) } });
        }
        plan.actions.sort_by_key(|a| a.t);
    }
}

fn c02_post(plan: &mut LPlan, seed: u64) {
    plan.fine = true;
    inject_ack_nak_noise(plan, seed, 2, 14);
    sprinkle_client_runts(plan, seed);
    {
        // the client-facing socket fails now and then while ACKs and NAKs are being relayed to the
        // SRT endpoint: what the uplinks' accounting does with them must not depend on that
        use crate::lsim::plan::{Action, TimedAction};
        let mut r = crate::prng::Rng::new(seed ^ 0xC11E);
        if r.chance(0.35) {
            let (lo, hi) = traffic_window(plan);
            for _ in 0..r.range(2, 10) {
                plan.actions.push(TimedAction {
                    t: r.range(lo, hi.max(lo + 1)),
                    kind: Action::ClientSockFault { kind: r.pick(&["err", "err", "wouldblock", "err_try"]).to_string(), count: r.range(1, 12) as u32 },
                });
            }
            plan.actions.sort_by_key(|a| a.t);
        }
    }
}

/// Must-land traffic all along the stream: retransmissions and critical windows.
fn sprinkle_must_land(plan: &mut LPlan, seed: u64) {
    use crate::lsim::plan::{Action, TimedAction};
    let mut r = crate::prng::Rng::new(seed ^ 0x3057);
    let (lo, hi) = traffic_window(plan);
    let mut t = lo + r.range(10, 300);
    while t < hi {
        if r.chance(0.7) {
            plan.actions.push(TimedAction {
                t,
                kind: Action::Rexmit { back: r.range(0, 200) as u32, count: r.range(1, 3) as u32 },
            });
        } else {
            plan.actions.push(TimedAction { t, kind: Action::Critical { ms: r.range(10, 600) } });
        }
        t += r.range(40, 600);
    }
    plan.actions.sort_by_key(|a| a.t);
}

fn c04_profile(index: u64) -> Profile {
    let mut p = Profile::base("c04");
    p.p_fault_free = 0.1;
    p.links_lo = 2;
    p.net_loss = index % 2 == 0;
    p.blackholes = true;
    p.link_loss = true;
    p.receiver_restart = index % 5 == 0;
    p.stalls = index % 4 == 1;
    p.config_changes = index % 3 == 0;
    p.critical = true;
    p.timeouts = true;
    p.small_timeout_bias = index % 2 == 1;
    p.low_stall_threshold_bias = true;
    p.max_bursts = 8;
    p.horizon_lo_ms = 8_000;
    p.horizon_hi_ms = 24_000;
    p
}

fn c04_post(plan: &mut LPlan, seed: u64) {
    sprinkle_must_land(plan, seed);
    // keep the stream going for the whole horizon so faults land inside traffic
    use crate::lsim::plan::{Action, TimedAction};
    let mut r = crate::prng::Rng::new(seed ^ 0x57EA);
    let (lo, hi) = traffic_window(plan);
    if r.chance(0.7) {
        let pps = *r.pick(&[50u32, 200, 600]);
        plan.actions.push(TimedAction {
            t: lo,
            kind: Action::Burst {
                n: (((hi - lo) * pps as u64) / 1000).min(6000) as u32,
                pps,
                size_lo: 200,
                size_hi: 1316,
                stride: 1,
            },
        });
        plan.actions.sort_by_key(|a| a.t);
    }
}

fn c05_profile(index: u64) -> Profile {
    let mut p = Profile::base("c05");
    p.p_fault_free = 0.3;
    p.net_loss = true;
    p.blackholes = true;
    p.reloads = index % 4 == 1;
    p.collisions = true;
    p.timeouts = true;
    p.low_stall_threshold_bias = true;
    p.horizon_hi_ms = 16_000;
    // a failed flush resets the link while its packets are remembered and another link holds a probe copy
    p.send_faults = index % 3 == 2;
    p
}

fn c05_post(plan: &mut LPlan, seed: u64) {
    use crate::lsim::env::build_nak;
    use crate::lsim::plan::{Action, TimedAction, hex};
    plan.fine = true;
    inject_ack_nak_noise(plan, seed, 4, 20);
    let mut r = crate::prng::Rng::new(seed ^ 0xE791);
    if r.chance(0.5) {
        // Expiry-boundary scenario: a silent receiver keeps packets outstanding
        // for five seconds; NAKs arrive exactly 5000 / 5001 ms after queueing.
        plan.cfg.conn_timeout_ms = 15_000;
        let span = seq_span(plan);
        let tb = plan.horizon_ms.max(6_000);
        let base = ((plan.client.start_seq as u64 + span) & 0x7FFF_FFFF) as u32;
        plan.actions.push(TimedAction { t: tb - 2, kind: Action::ReceiverMode { mode: "silent".into() } });
        plan.actions.push(TimedAction {
            t: tb,
            kind: Action::Burst { n: r.range(2, 40) as u32, pps: 1000, size_lo: 100, size_hi: 400, stride: 1 },
        });
        for (k, dt) in [5000u64, 5001, 4999, 5000].iter().enumerate() {
            let link = r.below(plan.n_links as u64) as usize;
            // the k-th packet of the burst was queued at tb + k ms (1000 pps)
            let seq = base.wrapping_add(k as u32) & 0x7FFF_FFFF;
            let lat = 0;
            plan.actions.push(TimedAction {
                t: tb + k as u64 + dt - lat,
                kind: Action::Inject { link, hex: hex(&build_nak(&[seq])), delay: 0 },
            });
        }
        // two holders of one number, both records expired: retransmissions a few ms later
        // (routed wherever the scheduler likes), NAKs once everything is older than 5 s
        if r.chance(0.6) {
            let n_back = r.range(0, 6) as u32;
            plan.actions.push(TimedAction { t: tb + r.range(45, 70), kind: Action::Rexmit { back: n_back, count: r.range(1, 4) as u32 } });
            for k in 0..8u32 {
                let link = r.below(plan.n_links as u64) as usize;
                let seq = base.wrapping_add(span_of_burst(plan, tb).saturating_sub(1 + k)) & 0x7FFF_FFFF;
                plan.actions.push(TimedAction {
                    t: tb + 5_075 + k as u64,
                    kind: Action::Inject { link, hex: hex(&build_nak(&(if k % 2 == 0 { vec![seq] } else { vec![seq, seq] }))), delay: 0 },
                });
            }
        }
        // windows at (or a few steps above) the floor
        if r.chance(0.5) {
            for l in 0..plan.n_links {
                let w = if l == 0 && r.chance(0.8) { 1000 } else { *r.pick(&[1000, 1000, 1050, 1100, 1200]) };
                plan.actions.push(TimedAction { t: tb - 1, kind: Action::SetWindow { link: l, window: w } });
            }
        }
        plan.horizon_ms = tb + 6_000;
        plan.actions.sort_by_key(|a| a.t);
    } else if r.chance(0.6) {
        // A link is reset (a second REG3 from the receiver) while routed packets sit in its
        // batch queue: they are discarded, never transmitted, and then NAKed - by the receiver
        // model, which misses them, and by forged NAKs on any link.
        let span = seq_span(plan);
        let tb = plan.horizon_ms.max(4_000);
        let base = ((plan.client.start_seq as u64 + span) & 0x7FFF_FFFF) as u32;
        let n = r.range(30, 120) as u32;
        plan.actions.push(TimedAction { t: tb, kind: Action::Burst { n, pps: *r.pick(&[1000u32, 2000, 4000]), size_lo: 100, size_hi: 400, stride: 1 } });
        for _ in 0..r.range(1, 3) {
            let link = r.below(plan.n_links as u64) as usize;
            plan.actions.push(TimedAction { t: tb + r.range(2, 25), kind: Action::Inject { link, hex: "9202".into(), delay: 0 } });
        }
        for _ in 0..r.range(4, 16) {
            let link = r.below(plan.n_links as u64) as usize;
            let seq = base.wrapping_add(r.below(n as u64) as u32) & 0x7FFF_FFFF;
            plan.actions.push(TimedAction { t: tb + r.range(40, 400), kind: Action::Inject { link, hex: hex(&build_nak(&[seq])), delay: 0 } });
        }
        plan.horizon_ms = tb + 1_500;
        plan.actions.sort_by_key(|a| a.t);
    }
    // Four links; a low-index link is stall-gated and holds probe copies while a higher-index link
    // carries; a reload drops the two other links at once; the receiver has gone quiet, so the
    // packets stay outstanding, and a forged NAK range names a few hundred of them.
    if plan.n_links == 4 && r.chance(0.35) {
        let tb = plan.horizon_ms.max(4_000);
        let gated = r.below(2) as usize;
        let keep_hi = 2 + r.below(2) as usize;
        plan.cfg.stall_guard = true;
        plan.cfg.stall_min_in_flight = *r.pick(&[1, 2, 4]);
        plan.cfg.stall_ack_stale_ms = *r.pick(&[500, 1000]);
        plan.cfg.conn_timeout_ms = 15_000;
        let span = seq_span(plan);
        let base = ((plan.client.start_seq as u64 + span) & 0x7FFF_FFFF) as u32;
        let pps = *r.pick(&[600u32, 1000]);
        plan.actions.push(TimedAction { t: tb, kind: Action::Burst { n: pps * 5, pps, size_lo: 200, size_hi: 700, stride: 1 } });
        plan.actions.push(TimedAction { t: tb + 300, kind: Action::Blackhole { link: gated, up: true, down: true, on: true } });
        // the other two links die too, so that the stream sits on keep_hi
        for l in 0..4 {
            if l != gated && l != keep_hi {
                plan.actions.push(TimedAction { t: tb + 300, kind: Action::Blackhole { link: l, up: true, down: true, on: true } });
            }
        }
        plan.actions.push(TimedAction { t: tb + 2_400, kind: Action::ReceiverMode { mode: "silent".into() } });
        let text = format!("{}\n{}\n", crate::lsim::path_ip(gated), crate::lsim::path_ip(keep_hi));
        plan.actions.push(TimedAction { t: tb + 2_900, kind: Action::Reload { text: Some(text) } });
        for k in 0..3u64 {
            let from = base.wrapping_add((pps as u64 * (2_500 + k * 150) / 1000) as u32) & 0x7FFF_FFFF;
            let to = from.wrapping_add(220) & 0x7FFF_FFFF;
            let mut b = vec![0x80u8, 0x03, 0, 0];
            b.extend_from_slice(&(from | 0x8000_0000).to_be_bytes());
            b.extend_from_slice(&to.to_be_bytes());
            plan.actions.push(TimedAction { t: tb + 4_200 + k * 100, kind: Action::Inject { link: keep_hi, hex: hex(&b), delay: 0 } });
        }
        plan.horizon_ms = tb + 6_000;
        plan.actions.sort_by_key(|a| a.t);
    }
    // A stall-gated link holds probe copies (one in a hundred routed packets) while the carrier's
    // size-triggered flushes fail now and then: the carrier is reset, the receiver misses the batch
    // and NAKs it - the only remaining holder of some of those numbers is the probe link.
    if plan.n_links >= 2 && r.chance(0.3) {
        let tb = plan.horizon_ms.max(4_000);
        let gated = r.below(plan.n_links as u64) as usize;
        plan.cfg.stall_guard = true;
        plan.cfg.stall_min_in_flight = *r.pick(&[1, 2, 4]);
        plan.cfg.stall_ack_stale_ms = *r.pick(&[500, 1000, 1500]);
        plan.cfg.conn_timeout_ms = 15_000;
        let pps = *r.pick(&[600u32, 1000, 1500]);
        plan.actions.push(TimedAction { t: tb, kind: Action::Burst { n: pps * 9, pps, size_lo: 200, size_hi: 900, stride: 1 } });
        plan.actions.push(TimedAction { t: tb + 400, kind: Action::Blackhole { link: gated, up: true, down: true, on: true } });
        let mut t = tb + 2_500;
        while t < tb + 8_500 {
            for l in 0..plan.n_links {
                if l != gated {
                    plan.actions.push(TimedAction { t, kind: Action::SendFault { link: l, kind: "err:unreach".into(), count: 1, batch_only: true, send_only: false } });
                }
            }
            t += r.range(300, 1_200);
        }
        plan.horizon_ms = tb + 11_000;
        plan.actions.sort_by_key(|a| a.t);
    }
}

fn span_of_burst(plan: &LPlan, t: u64) -> u32 {
    plan.actions
        .iter()
        .find_map(|a| match &a.kind {
            crate::lsim::plan::Action::Burst { n, stride, .. } if a.t == t => Some(n * stride),
            _ => None,
        })
        .unwrap_or(1)
}

fn c10_profile(index: u64) -> Profile {
    let mut p = Profile::base("c10");
    p.force_classic = Some(index % 6 != 5);
    p.force_guard = Some(false);
    p.p_fault_free = 0.4;
    p.net_loss = true;
    p.blackholes = index % 3 == 0;
    p.link_loss = index % 3 == 1;
    p.random_windows = true;
    p.critical = true;
    p.timeouts = index % 2 == 0;
    p.horizon_hi_ms = 14_000;
    p
}

fn c10_post(plan: &mut LPlan, seed: u64) {
    use crate::lsim::plan::{Action, TimedAction};
    plan.fine = true;
    sprinkle_must_land(plan, seed);
    inject_ack_nak_noise(plan, seed, 0, 8);
    {
        // the guard starts on and is switched off at run time - a few hundred milliseconds after a
        // loaded link fell silent (pulled by the fast tier, not yet latched), or a few seconds
        // after (latched): from then on nothing of it may influence classic routing
        let mut r = crate::prng::Rng::new(seed ^ 0x6A2D);
        if plan.n_links >= 2 && r.chance(0.3) {
            let (lo, hi) = traffic_window(plan);
            plan.cfg.stall_guard = true;
            plan.cfg.stall_min_in_flight = *r.pick(&[1, 2, 4, 8]);
            let l = r.below(plan.n_links as u64) as usize;
            let t1 = r.range(lo + 300, (lo + 3_000).min(hi.saturating_sub(2_000)).max(lo + 301));
            plan.actions.push(TimedAction { t: t1, kind: Action::Blackhole { link: l, up: true, down: true, on: true } });
            let dt = if r.chance(0.6) { r.range(280, 950) } else { r.range(1_200, 4_000) };
            plan.actions.push(TimedAction {
                t: t1 + dt,
                kind: Action::Control { line: r#"{"jsonrpc":"2.0","method":"set_stall_deselect","params":{"enabled":false}}"#.into() },
            });
            // keep the stream going across the toggle
            plan.actions.push(TimedAction { t: t1.saturating_sub(200), kind: Action::Burst { n: 4_000, pps: *r.pick(&[400u32, 800, 1500]), size_lo: 100, size_hi: 1316, stride: 1 } });
            plan.horizon_ms = plan.horizon_ms.max(t1 + dt + 3_000);
            plan.actions.sort_by_key(|a| a.t);
        }
    }
    if !plan.cfg.classic {
        // an enhanced-mode phase first, leaving quality caches stale
        let mut r = crate::prng::Rng::new(seed ^ 0xC1A5);
        let (lo, hi) = traffic_window(plan);
        plan.actions.push(TimedAction {
            t: r.range(lo, (lo + hi) / 2),
            kind: Action::Control { line: r#"{"jsonrpc":"2.0","method":"set_mode","params":{"mode":"classic"}}"#.into() },
        });
        plan.actions.sort_by_key(|a| a.t);
    }
}

/// Adversarial / corrupted datagrams on every uplink in every link state.
fn inject_arbitrary(plan: &mut LPlan, seed: u64, index: u64, count: u64) {
    use crate::lsim::plan::{Action, TimedAction, hex};
    let mut r = crate::prng::Rng::new(seed ^ 0xADE5);
    let known: [u16; 16] = [0x9000, 0x9100, 0x9200, 0x9201, 0x9202, 0x9210, 0x9211, 0x9212, 0x8000, 0x8001, 0x8002, 0x8003, 0x8005, 0x8006, 0x0000, 0x7FFF];
    for k in 0..count {
        let t = r.range(0, plan.horizon_ms);
        let link = r.below(plan.n_links as u64) as usize;
        // type code: sweep the 16-bit space across runs, plus known codes
        let ty: u16 = match r.below(4) {
            0 => ((index * count + k) % 65536) as u16,
            1 => r.below(65536) as u16,
            _ => *r.pick(&known),
        };
        let len = match r.below(8) {
            0 => r.range(0, 3),
            1 => r.range(4, 24),
            2 => *r.pick(&[8u64, 10, 16, 19, 20, 21, 37, 38, 39, 44, 257, 258, 259]),
            3 => r.range(1000, 1500),
            _ => r.range(2, 120),
        } as usize;
        let mut b = vec![0u8; len];
        r.fill(&mut b);
        if len >= 2 {
            b[0] = (ty >> 8) as u8;
            b[1] = ty as u8;
        }
        // make some of them meaningful: timestamps near now, sequence numbers near the stream
        if ty == 0x9000 && len >= 10 && r.chance(0.7) {
            let now = plan.time_base_ms + t;
            let ts = match r.below(6) {
                0 => 0,
                1 => now + r.range(1, 5000),
                2 => now.saturating_sub(r.range(10_001, 40_000)),
                3 => now,
                // far too old, but within 10 s of now in its low 32 bits (an echo truncated to 32
                // bits and widened again, a flipped high bit)
                4 => now.saturating_sub(r.range(1, 3) * (1u64 << 32) + r.range(1, 9_000)),
                _ => now.saturating_sub(r.range(1, 900)),
            };
            b[2..10].copy_from_slice(&ts.to_be_bytes());
        }
        if (ty == 0x8003 || ty == 0x9100) && len >= 8 {
            let base = plan.client.start_seq;
            for c in b[4..].chunks_exact_mut(4) {
                if r.chance(0.15) {
                    // boundary words: both ends of the 31-bit space, with and without the range flag
                    let v: u32 = *r.pick(&[0u32, 1, 2, 999, 1000, 0x7FFF_FFFE, 0x7FFF_FFFF, 0x8000_0000, 0x8000_0001, 0x8000_03E7, 0xFFFF_FFFE, 0xFFFF_FFFF]);
                    c.copy_from_slice(&v.to_be_bytes());
                } else if r.chance(0.7) {
                    let mut v = base.wrapping_add(r.range(0, 3000) as u32) & 0x7FFF_FFFF;
                    if ty == 0x8003 && r.chance(0.2) {
                        v |= 0x8000_0000;
                    }
                    c.copy_from_slice(&v.to_be_bytes());
                }
            }
        }
        if ty == 0x8002 && len >= 20 && r.chance(0.7) {
            let v = plan.client.start_seq.wrapping_add(r.range(0, 3000) as u32) & 0x7FFF_FFFF;
            b[16..20].copy_from_slice(&v.to_be_bytes());
        }
        plan.actions.push(TimedAction { t, kind: Action::Inject { link, hex: hex(&b), delay: r.range(0, 20) } });
    }
    plan.actions.sort_by_key(|a| a.t);
}

/// Systematic corruption schedule: every known type code truncated to every length <= 24.
fn inject_truncations(plan: &mut LPlan, seed: u64) {
    use crate::lsim::plan::{Action, TimedAction, hex};
    let mut r = crate::prng::Rng::new(seed ^ 0x7A0C);
    let known: [u16; 14] = [0x9000, 0x9100, 0x9200, 0x9201, 0x9202, 0x9210, 0x9211, 0x8000, 0x8001, 0x8002, 0x8003, 0x8006, 0x0000, 0x4000];
    for ty in known {
        for len in 0..=24usize {
            let mut b = vec![0u8; len];
            r.fill(&mut b);
            if len >= 1 {
                b[0] = (ty >> 8) as u8;
            }
            if len >= 2 {
                b[1] = ty as u8;
            }
            let t = r.range(0, plan.horizon_ms);
            let link = r.below(plan.n_links as u64) as usize;
            plan.actions.push(TimedAction { t, kind: Action::Inject { link, hex: hex(&b), delay: 0 } });
        }
    }
    plan.actions.sort_by_key(|a| a.t);
}

fn c09_profile(index: u64) -> Profile {
    let mut p = Profile::base("c09");
    p.p_fault_free = 0.2;
    p.net_loss = index % 2 == 0;
    p.blackholes = index % 3 == 0;
    p.client_sock_faults = true;
    p.receiver_restart = index % 5 == 0;
    p.low_stall_threshold_bias = true;
    p.horizon_hi_ms = 12_000;
    p
}

fn c09_post(plan: &mut LPlan, seed: u64) {
    let idx = seed % 4096;
    let mut r = crate::prng::Rng::new(seed ^ 0x0909);
    inject_arbitrary(plan, seed, idx, r.range(50, 600));
    if r.chance(0.4) {
        // a burst deeper than the loop's per-iteration drain budget (64): 65..200 distinct
        // datagrams reach the reader tasks at one instant (the loop was busy meanwhile)
        use crate::lsim::plan::{Action, TimedAction, hex};
        plan.fine = false;
        let t = r.range(plan.horizon_ms / 4, plan.horizon_ms.max(4) * 3 / 4);
        let n = r.range(65, 200);
        let one_link = r.chance(0.5);
        let l0 = r.below(plan.n_links as u64) as usize;
        for k in 0..n {
            let link = if one_link { l0 } else { r.below(plan.n_links as u64) as usize };
            // mostly SRT traffic the client must see (control types other than ACK / NAK, data), distinct bodies
            let ty: u16 = *r.pick(&[0x8000u16, 0x8001, 0x8005, 0x8006, 0x8007, 0x0000, 0x1234, 0x9000, 0x8002]);
            let mut b = vec![0u8; r.range(16, 64) as usize];
            r.fill(&mut b);
            b[0] = (ty >> 8) as u8;
            b[1] = ty as u8;
            b[8..16].copy_from_slice(&(0xB0B0_0000_0000_0000u64 | k).to_be_bytes());
            plan.actions.push(TimedAction { t, kind: Action::Inject { link, hex: hex(&b), delay: 3 } });
        }
        plan.actions.sort_by_key(|a| a.t);
    }
    {
        use crate::lsim::plan::{Action, TimedAction, hex};
        // the SRT endpoint restarts on a new source port, once or twice, inside the traffic
        if r.chance(0.4) {
            for k in 0..r.range(1, 2) {
                let t = r.range(plan.horizon_ms / 5, plan.horizon_ms.max(5) * 4 / 5);
                plan.actions.push(TimedAction { t, kind: Action::ClientRebind { port: 40_001 + k as u16 } });
            }
        }
        // a link falls silent for just over the liveness timeout and then hears one datagram
        // before housekeeping gets to it: nothing else reaches that link meanwhile
        if r.chance(0.4) {
            let l = r.below(plan.n_links as u64) as usize;
            let timeout = plan.cfg.conn_timeout_ms;
            let t0 = r.range(3_000, 5_000);
            let quiet_to = t0 + timeout + 1_100;
            plan.actions.retain(|a| !(matches!(&a.kind, Action::Inject { link, .. } if *link == l) && a.t + 25 >= t0 && a.t <= quiet_to));
            plan.actions.push(TimedAction { t: t0, kind: Action::Blackhole { link: l, up: false, down: true, on: true } });
            let mut k = 0u64;
            while k < 1_000 {
                let ty: u16 = *r.pick(&[0x8002u16, 0x8003, 0x9000, 0x9100, 0x8006, 0x0001, 0x1234]);
                let mut b = vec![0u8; r.range(20, 60) as usize];
                r.fill(&mut b);
                b[0] = (ty >> 8) as u8;
                b[1] = ty as u8;
                plan.actions.push(TimedAction { t: t0 + timeout + k + r.range(1, 40), kind: Action::Inject { link: l, hex: hex(&b), delay: 0 } });
                k += r.range(90, 260);
            }
            plan.actions.push(TimedAction { t: quiet_to + 400, kind: Action::Blackhole { link: l, up: false, down: true, on: false } });
            plan.horizon_ms = plan.horizon_ms.max(quiet_to + 2_500);
        }
        plan.actions.sort_by_key(|a| a.t);
    }
    if r.chance(0.25) {
        // a run in which the client never speaks: nothing may reach the client socket
        plan.actions.retain(|a| {
            !matches!(
                a.kind,
                crate::lsim::plan::Action::Burst { .. }
                    | crate::lsim::plan::Action::Rexmit { .. }
                    | crate::lsim::plan::Action::ClientControl { .. }
            )
        });
    }
    if r.chance(0.3) {
        plan.recv.mode = "silent".into();
    }
}

fn c14_profile(index: u64) -> Profile {
    let mut p = Profile::base("c14");
    p.p_fault_free = 0.2;
    p.net_loss = true;
    p.blackholes = index % 3 == 0;
    p.link_loss = index % 3 == 1;
    p.send_faults = index % 4 == 0;
    p.stalls = true;
    p.timeouts = true;
    p.horizon_lo_ms = 8_000;
    p.horizon_hi_ms = 40_000;
    p.max_bursts = 3;
    p
}

fn c14_post(plan: &mut LPlan, seed: u64) {
    use crate::lsim::plan::{Action, TimedAction, hex};
    let mut r = crate::prng::Rng::new(seed ^ 0x1414);
    // forged echoes: zero / future / stale / truncated / trailing garbage / duplicates
    for _ in 0..r.range(5, 60) {
        let t = r.range(2_000, plan.horizon_ms);
        let now = plan.time_base_ms + t;
        let len = *r.pick(&[2usize, 9, 10, 10, 11, 38, 38, 38, 60, 200]);
        let mut b = vec![0u8; len];
        r.fill(&mut b);
        b[0] = 0x90;
        b[1] = 0x00;
        if len >= 10 {
            let ts = match r.below(8) {
                0 => 0,
                1 => now + r.range(1, 20_000),
                2 => now.saturating_sub(r.range(10_001, 60_000)),
                3 => now.saturating_sub(10_000),
                4 => now,
                // weeks too old, yet within 10 s of now in its low 32 bits
                5 => now.saturating_sub(r.range(1, 3) * (1u64 << 32) + r.range(1, 9_000)),
                _ => now.saturating_sub(r.range(1, 1200)),
            };
            b[2..10].copy_from_slice(&ts.to_be_bytes());
        }
        let link = r.below(plan.n_links as u64) as usize;
        plan.actions.push(TimedAction { t, kind: Action::Inject { link, hex: hex(&b), delay: 0 } });
    }
    plan.actions.sort_by_key(|a| a.t);
}

fn c15_profile(index: u64) -> Profile {
    let mut p = Profile::base("c15");
    p.p_fault_free = 0.3;
    p.net_loss = true;
    p.blackholes = index % 4 == 0;
    p.horizon_hi_ms = 10_000;
    p
}

fn c15_post(plan: &mut LPlan, seed: u64) {
    sprinkle_client_runts(plan, seed);
    let idx = seed % 4096;
    inject_arbitrary(plan, seed, idx, 400);
    inject_truncations(plan, seed);
    inject_ack_nak_noise(plan, seed, 10, 40);
}

fn sel_l_profile(index: u64) -> Profile {
    let mut p = Profile::base("sel_l");
    p.links_lo = 2;
    p.force_classic = Some(false);
    p.force_guard = Some(index % 5 != 4);
    p.p_fault_free = 0.1;
    p.net_loss = index % 2 == 0;
    p.blackholes = true;
    p.link_loss = index % 3 == 0;
    p.receiver_restart = index % 4 == 0;
    p.config_changes = index % 3 == 1;
    p.low_stall_threshold_bias = true;
    p.heavy_rate_bias = true;
    p.horizon_lo_ms = 8_000;
    p.horizon_hi_ms = 20_000;
    p.max_bursts = 8;
    // liveness timeouts below the guard's ceiling in a quarter of the runs
    p.timeouts = index % 4 == 2;
    p
}

fn c12l_profile(index: u64) -> Profile {
    let mut p = sel_l_profile(index);
    p.force_classic = None;
    p.force_guard = Some(index % 2 == 0);
    p.config_changes = true;
    p
}

fn c12l_post(plan: &mut LPlan, seed: u64) {
    use crate::lsim::plan::{Action, TimedAction};
    sel_l_post(plan, seed);
    // one run in three: a link is black-holed under load with the guard on (it gets pulled /
    // latched / gated), a reload leaves it as the only link, then the guard is switched off
    let mut r = crate::prng::Rng::new(seed ^ 0xC12);
    if r.chance(0.33) {
        let (lo, hi) = traffic_window(plan);
        let l = r.below(plan.n_links as u64) as usize;
        let t1 = r.range(lo + 200, (lo + 4000).min(hi.saturating_sub(3000)).max(lo + 201));
        plan.cfg.stall_guard = true;
        plan.actions.retain(|a| !matches!(&a.kind, Action::Control { line } if line.contains("stall")));
        plan.actions.push(TimedAction { t: t1, kind: Action::Blackhole { link: l, up: true, down: true, on: true } });
        let t2 = t1 + r.range(400, 2500);
        plan.actions.push(TimedAction { t: t2, kind: Action::Reload { text: Some(format!("{}\n", crate::lsim::path_ip(l))) } });
        if r.chance(0.7) {
            plan.actions.push(TimedAction {
                t: t2 + r.range(1100, 2500),
                kind: Action::Control { line: r#"{"jsonrpc":"2.0","method":"set_stall_deselect","params":{"enabled":false}}"#.into() },
            });
        }
        plan.actions.sort_by_key(|a| a.t);
    }
}

fn sel_l_post(plan: &mut LPlan, seed: u64) {
    use crate::lsim::plan::{Action, TimedAction};
    c04_post(plan, seed);
    {
        // one run in four: enhanced -> classic -> enhanced at run time, inside the traffic (whatever
        // the mode, the uplink that carried the last datagram is the previous uplink)
        let mut r = crate::prng::Rng::new(seed ^ 0x30DE);
        if r.chance(0.25) {
            let (lo, hi) = traffic_window(plan);
            let t1 = r.range(lo + 300, hi.max(lo + 301));
            let t2 = t1 + r.range(300, 3_000);
            for (t, m) in [(t1, "classic"), (t2, "enhanced")] {
                plan.actions.push(TimedAction { t, kind: Action::Control { line: format!(r#"{{"jsonrpc":"2.0","method":"set_mode","params":{{"mode":"{m}"}}}}"#) } });
            }
            plan.actions.sort_by_key(|a| a.t);
        }
    }
    {
        // one run in five: a link is black-holed under load (pulled, then latched), a reload leaves
        // it as the only link for a while, a second reload brings the others back
        let mut r = crate::prng::Rng::new(seed ^ 0x51A6);
        if plan.n_links >= 2 && r.chance(0.2) {
            let (lo, hi) = traffic_window(plan);
            let l = r.below(plan.n_links as u64) as usize;
            let t1 = r.range(lo + 200, (lo + 3_000).min(hi.saturating_sub(4_000)).max(lo + 201));
            plan.cfg.stall_guard = true;
            plan.actions.retain(|a| !matches!(&a.kind, Action::Control { line } if line.contains("stall")));
            plan.actions.push(TimedAction { t: t1, kind: Action::Blackhole { link: l, up: true, down: true, on: true } });
            let t2 = t1 + r.range(1_500, 4_000);
            plan.actions.push(TimedAction { t: t2, kind: Action::Reload { text: Some(format!("{}\n", crate::lsim::path_ip(l))) } });
            let all: String = (0..plan.n_links).map(|k| format!("{}\n", crate::lsim::path_ip(k))).collect();
            plan.actions.push(TimedAction { t: t2 + r.range(1_200, 2_500), kind: Action::Reload { text: Some(all) } });
            plan.actions.push(TimedAction { t: t1.saturating_sub(100), kind: Action::Burst { n: 6_000, pps: *r.pick(&[400u32, 800]), size_lo: 100, size_hi: 1316, stride: 1 } });
            plan.horizon_ms = plan.horizon_ms.max(t2 + 6_000);
            plan.actions.sort_by_key(|a| a.t);
        }
    }
    // one run in three: a reload inside the traffic that drops one link (often a low-index one)
    // and keeps the others, so that the survivors' positions shift under the hysteresis anchor
    let mut r = crate::prng::Rng::new(seed ^ 0x5E11);
    if plan.n_links >= 3 && r.chance(0.33) {
        let (lo, hi) = traffic_window(plan);
        let drop = if r.chance(0.6) { 0 } else { r.below(plan.n_links as u64) as usize };
        let text: String = (0..plan.n_links).filter(|l| *l != drop).map(|l| format!("{}\n", crate::lsim::path_ip(l))).collect();
        plan.actions.push(TimedAction { t: r.range(lo + 500, hi.max(lo + 501)), kind: Action::Reload { text: Some(text) } });
        plan.actions.sort_by_key(|a| a.t);
    }
}

fn c03l_post(plan: &mut LPlan, seed: u64) {
    use crate::lsim::plan::{Action, TimedAction};
    c04_post(plan, seed);
    let mut r = crate::prng::Rng::new(seed ^ 0xC03);
    let (lo, hi) = traffic_window(plan);
    match r.below(3) {
        0 => {
            // a gated link becomes the only one left: black-hole it under load, then reload to it alone
            let l = r.below(plan.n_links as u64) as usize;
            let t1 = r.range(lo + 200, (lo + 4000).min(hi.saturating_sub(3000)).max(lo + 201));
            plan.actions.push(TimedAction { t: t1, kind: Action::Blackhole { link: l, up: true, down: true, on: true } });
            plan.actions.push(TimedAction {
                t: t1 + r.range(400, 2500),
                kind: Action::Reload { text: Some(format!("{}\n", crate::lsim::path_ip(l))) },
            });
            plan.cfg.stall_guard = true;
        }
        1 => {
            // every link quality-gated right after a tick (ticks fall on whole seconds of the run)
            let mut t = ((lo / 1000) + 1) * 1000 + r.range(5, 60);
            while t + 1000 < hi {
                for l in 0..plan.n_links {
                    plan.actions.push(TimedAction { t, kind: Action::SetGlue { link: l, weak: r.chance(0.8), loss_degraded: r.chance(0.5) } });
                }
                t += 1000 * r.range(1, 3);
            }
        }
        _ => {}
    }
    plan.actions.sort_by_key(|a| a.t);
}

fn c19_profile(index: u64) -> Profile {
    let mut p = Profile::base("c19");
    p.p_fault_free = 0.0;
    p.reloads = true;
    p.net_loss = index % 3 == 0;
    p.blackholes = index % 4 == 0;
    p.collisions = index % 3 == 1;
    p.horizon_lo_ms = 8_000;
    p.horizon_hi_ms = 20_000;
    p
}

fn c19_post(plan: &mut LPlan, seed: u64) {
    use crate::lsim::plan::{Action, TimedAction, gen_reload_text};
    let mut r = crate::prng::Rng::new(seed ^ 0x1919);
    // several reloads per run, inside traffic
    let (lo, hi) = traffic_window(plan);
    for _ in 0..r.range(1, 5) {
        let t = r.range(lo.min(hi - 1), hi);
        plan.actions.push(TimedAction { t, kind: Action::Reload { text: gen_reload_text(&mut r, plan.n_links) } });
    }
    // bind failures for addresses a reload may add
    if r.chance(0.3) {
        let link = r.range(0, 10) as usize;
        plan.actions.push(TimedAction { t: r.range(0, lo), kind: Action::BindFail { link, on: true } });
        if r.chance(0.5) {
            plan.actions.push(TimedAction { t: r.range(lo, hi), kind: Action::BindFail { link, on: false } });
        }
    }
    // the receiver named by host name or short form instead of an IPv4 literal
    if r.chance(0.3) {
        plan.receiver_host = r.pick(&["localhost", "127.1"]).to_string();
    }
    // duplicates among the existing links
    if r.chance(0.2) && plan.n_links >= 2 {
        let mut ips: Vec<String> = (0..plan.n_links).map(|i| crate::lsim::path_ip(i).to_string()).collect();
        ips[plan.n_links - 1] = ips[0].clone();
        plan.ips = ips;
    }
    plan.actions.sort_by_key(|a| a.t);
}

fn c07_profile(index: u64) -> Profile {
    let mut p = Profile::base("c07");
    p.links_lo = 2;
    p.links_hi = 3;
    p.p_fault_free = 0.35;
    p.net_loss = true;
    p.blackholes = index % 3 == 0;
    p.link_loss = index % 3 == 1;
    p.receiver_restart = index % 2 == 0;
    p.stalls = index % 4 == 3;
    p.horizon_lo_ms = 9_000;
    p.horizon_hi_ms = 22_000;
    p.max_bursts = 2;
    // liveness timeouts below the 5 s reconnect spacing: a flapped uplink can sit connected but
    // timed out inside its back-off while the others re-register
    p.timeouts = index % 3 == 2;
    p
}

fn c07_post(plan: &mut LPlan, seed: u64) {
    use crate::lsim::plan::{Action, TimedAction, hex};
    plan.fine = true;
    let mut r = crate::prng::Rng::new(seed ^ 0x0707);
    if plan.cfg.conn_timeout_ms < 4_000 && r.chance(0.6) {
        // uplink A flaps (re-registers), then falls silent while connected; the receiver restarts
        // inside A's back-off; the other uplinks time out, reconnect and are answered REG_NGP
        let a = r.below(plan.n_links as u64) as usize;
        let t0 = r.range(4_000, 6_000);
        plan.actions.push(TimedAction { t: t0, kind: Action::Blackhole { link: a, up: true, down: true, on: true } });
        plan.actions.push(TimedAction { t: t0 + plan.cfg.conn_timeout_ms + r.range(1_100, 2_200), kind: Action::Blackhole { link: a, up: true, down: true, on: false } });
        let t1 = t0 + plan.cfg.conn_timeout_ms + r.range(2_500, 4_500);
        plan.actions.push(TimedAction { t: t1, kind: Action::Blackhole { link: a, up: true, down: true, on: true } });
        plan.actions.push(TimedAction { t: t1 + r.range(100, 1_500), kind: Action::ReceiverRestart });
        plan.horizon_ms = plan.horizon_ms.max(t1 + 12_000);
        plan.actions.sort_by_key(|a| a.t);
    }
    if r.chance(0.6) {
        // adversarial receiver: a bounded-depth sequence of handshake packets
        // around the 1 s / 2 s / 4 s / 5 s deadlines (+-1 ms), on any link
        if r.chance(0.7) {
            plan.recv.mode = "silent".into();
        }
        plan.actions.retain(|a| !matches!(a.kind, Action::ReceiverRestart));
        let depth = r.range(1, 14);
        let mut id = vec![0u8; 256];
        r.fill(&mut id);
        let mut t = r.range(0, 2500);
        for _ in 0..depth {
            let link = r.below(plan.n_links as u64) as usize;
            let bytes: Vec<u8> = match r.below(10) {
                0 | 1 => vec![0x92, 0x11],
                2 | 3 => {
                    if r.chance(0.3) {
                        r.fill(&mut id);
                    }
                    let mut b = vec![0x92, 0x01];
                    b.extend_from_slice(&id);
                    b
                }
                4 => {
                    let mut b = vec![0x92, 0x01];
                    let n = *r.pick(&[0usize, 1, 128, 255]);
                    b.extend_from_slice(&id[..n]);
                    b
                }
                5 | 6 => vec![0x92, 0x02],
                7 => vec![0x92, 0x10],
                8 => {
                    let mut b = vec![0x92, 0x01];
                    b.extend_from_slice(&id);
                    b.extend_from_slice(&[1, 2, 3]);
                    b
                }
                _ => vec![0x92, 0x12],
            };
            plan.actions.push(TimedAction { t, kind: Action::Inject { link, hex: hex(&bytes), delay: 0 } });
            // next: just after now, or straddling a deadline
            t += match r.below(6) {
                0 => r.range(0, 3),
                1 => 999 + r.range(0, 2),
                2 => 1999 + r.range(0, 2),
                3 => 3999 + r.range(0, 2),
                4 => 4999 + r.range(0, 2),
                _ => r.range(1, 1500),
            };
            if r.chance(0.25) {
                // snap to a tick boundary +-1
                t = (t / 1000) * 1000 + r.range(0, 2) + 999;
            }
            if t >= plan.horizon_ms {
                break;
            }
        }
        plan.actions.sort_by_key(|a| a.t);
    }
}

fn c08_profile(index: u64) -> Profile {
    let mut p = Profile::base("c08");
    p.links_lo = 2;
    p.p_fault_free = 0.05;
    p.net_loss = index % 3 == 0;
    p.blackholes = true;
    p.link_loss = true;
    p.send_faults = index % 2 == 0;
    p.bind_faults = index % 3 == 1;
    p.receiver_restart = index % 2 == 1;
    p.stalls = index % 5 == 0;
    p.config_changes = index % 7 == 0;
    p.timeouts = true;
    p.low_stall_threshold_bias = true;
    p.max_bursts = 4;
    match index % 10 {
        0 => {
            // long, mostly idle: lets the exponential back-off reach its cap
            p.horizon_lo_ms = 300_000;
            p.horizon_hi_ms = 620_000;
            p.bind_faults = true;
        }
        1..=4 => {
            p.horizon_lo_ms = 60_000;
            p.horizon_hi_ms = 130_000;
        }
        _ => {
            p.horizon_lo_ms = 15_000;
            p.horizon_hi_ms = 60_000;
        }
    }
    p
}

fn c08_post(plan: &mut LPlan, seed: u64) {
    use crate::lsim::plan::{Action, TimedAction};
    let mut r = crate::prng::Rng::new(seed ^ 0x0808);
    // a thin continuous stream so that survivors always have something to carry
    if r.chance(0.7) {
        let pps = *r.pick(&[5u32, 20, 50]);
        let dur = plan.horizon_ms.saturating_sub(3_500).min(90_000);
        plan.actions.push(TimedAction {
            t: 3_300,
            kind: Action::Burst { n: ((dur * pps as u64) / 1000) as u32, pps, size_lo: 100, size_hi: 1316, stride: 1 },
        });
    }
    // keep all faults in the first part of long runs so that the liveness clock can run out
    let cut = plan.horizon_ms.saturating_sub(45_000).max(plan.horizon_ms / 2);
    for a in plan.actions.iter_mut() {
        let is_fault = !matches!(a.kind, Action::Burst { .. } | Action::Rexmit { .. } | Action::ClientControl { .. } | Action::Critical { .. });
        if is_fault && a.t > cut {
            a.t = r.range(3_000, cut.max(3_001));
        }
    }
    // the receiver forgets the group while handshake replies (REG2) are lost on some links; one
    // link's last datagram is a second or so older than the others', so that retry phases differ
    if r.chance(0.35) {
        let t1 = r.range(8_000, 14_000);
        let stagger = r.below(plan.n_links as u64) as usize;
        plan.actions.push(TimedAction { t: t1 - r.range(600, 1_900), kind: Action::Blackhole { link: stagger, up: true, down: true, on: true } });
        plan.actions.push(TimedAction { t: t1 + r.range(2_000, 9_000), kind: Action::Blackhole { link: stagger, up: true, down: true, on: false } });
        plan.actions.push(TimedAction { t: t1, kind: Action::ReceiverRestart });
        match r.below(4) {
            0 => {
                // for good on some links (known finding: they keep taking the one REG1 slot)
                for l in 0..plan.n_links {
                    if r.chance(0.5) {
                        plan.actions.push(TimedAction { t: t1 - 1, kind: Action::DropReg2 { link: l, on: true } });
                    }
                }
            }
            1 | 2 => {
                // for a few seconds
                for l in 0..plan.n_links {
                    if r.chance(0.6) {
                        plan.actions.push(TimedAction { t: t1 - 1, kind: Action::DropReg2 { link: l, on: true } });
                        plan.actions.push(TimedAction { t: t1 + r.range(2_000, 12_000), kind: Action::DropReg2 { link: l, on: false } });
                    }
                }
            }
            _ => {
                // the uplink that answers the first REG_NGP never gets its REG2 and then dies for good
                for l in 0..plan.n_links {
                    if l != stagger && r.chance(0.6) {
                        let dead_at = t1 + r.range(300, 3_500);
                        plan.actions.push(TimedAction { t: t1 - 1, kind: Action::DropReg2 { link: l, on: true } });
                        plan.actions.push(TimedAction { t: dead_at, kind: Action::Blackhole { link: l, up: true, down: true, on: true } });
                        plan.actions.push(TimedAction { t: dead_at, kind: Action::DropReg2 { link: l, on: false } });
                    }
                }
            }
        }
        plan.horizon_ms = plan.horizon_ms.max(t1 + 70_000);
    }
    // the reader of an uplink reports a receive error now and then (an ICMP error collected with the
    // next datagram): not a silence, not a send failure - the uplink stays
    if r.chance(0.4) {
        for _ in 0..r.range(1, 6) {
            let t = r.range(3_500, plan.horizon_ms.max(3_501));
            plan.actions.push(TimedAction { t, kind: Action::UplinkRecvError { link: r.below(plan.n_links as u64) as usize } });
        }
    }
    // long bind-failure episodes in the long runs
    if plan.horizon_ms >= 300_000 {
        let link = r.below(plan.n_links as u64) as usize;
        plan.actions.push(TimedAction { t: r.range(4_000, 20_000), kind: Action::LinkLoss { link, on: true } });
        plan.actions.push(TimedAction { t: r.range(20_000, 30_000), kind: Action::BindFail { link, on: true } });
        if r.chance(0.5) {
            let off = r.range(200_000, cut.max(200_001));
            plan.actions.push(TimedAction { t: off, kind: Action::BindFail { link, on: false } });
            plan.actions.push(TimedAction { t: off, kind: Action::LinkLoss { link, on: false } });
        }
    }
    plan.actions.sort_by_key(|a| a.t);
}

/// Engine W wrapper: an L plan executed on the real loop; only the violations of
/// `prop` are kept (the wire-level monitor knows rules of C01, C09 and C14).
pub struct WCheck {
    pub prop: &'static str,
    pub runs_quick: u64,
    pub runs_thorough: u64,
}

/// Engine X wrapper: the real control-socket connection task on socket pairs; only the
/// violations of `prop` are kept (the wire oracle knows rules of C18 and C20).
pub struct XCheck {
    pub prop: &'static str,
    pub runs_quick: u64,
    pub runs_thorough: u64,
}

impl Check for XCheck {
    fn id(&self) -> &'static str {
        self.prop
    }
    fn engine(&self) -> &'static str {
        "X"
    }
    fn level(&self) -> &'static str {
        "exploration"
    }
    fn runs(&self, tier: Tier) -> u64 {
        match tier {
            Tier::Quick => self.runs_quick,
            Tier::Thorough => self.runs_thorough,
        }
    }
    fn generate(&self, run_seed: u64, _index: u64, _tier: Tier) -> Value {
        crate::xsim::generate(run_seed).to_value()
    }
    fn execute(&self, plan: &Value, want_excerpt: bool) -> RunOutcome {
        let plan = match crate::xsim::XPlan::from_value(plan) {
            Ok(p) => p,
            Err(e) => panic!("{e}"),
        };
        let mut o = crate::xsim::execute(&plan, want_excerpt);
        let prefix = format!("{}.", self.prop);
        o.violations.retain(|v| v.monitor.starts_with(&prefix));
        o
    }
    fn shrink(&self, plan: &Value) -> Vec<Value> {
        match crate::xsim::XPlan::from_value(plan) {
            Ok(p) => crate::xsim::shrink(&p).into_iter().map(|p| p.to_value()).collect(),
            Err(_) => Vec::new(),
        }
    }
    fn rule(&self) -> String {
        "one run = 1..3 clients on socket pairs served by the real control-socket connection task, a publisher, and a seeded schedule: request streams cut into arbitrary writes, last request with or without a newline, half-closes, event bursts, server tasks allowed to run not at all / a few polls / to quiescence between two actions. Per client: responses equal, in order, what the synchronous dispatcher answers to the same lines (subscription methods: presence and id only), the configuration ends equal, every event is for one of the client's own subscriptions under its topic and the publication counters strictly increase per subscription".into()
    }
    fn assumptions(&self) -> Vec<String> {
        vec![
            "the stdin entry point is BufRead::lines + trim + dispatch + println (mirrored; the dispatcher itself is real)".into(),
            "the kernel's socket pair is real; every task that touches it runs on one thread under a seeded current-thread runtime, and the batch's determinism spot check guards replay".into(),
        ]
    }
    fn real_components(&self) -> Vec<String> {
        vec!["src/control_socket.rs handle() (through hook H12), control::dispatch_async / dispatch, SubscriptionHub, DynamicConfig, tokio UnixStream pair".into()]
    }
    fn stub_components(&self) -> Vec<String> {
        vec!["[X] listener accept loop and socket file: each connection is a socket pair created by the simulator".into(), "[X] stdin reader thread: mirrored as lines + trim + dispatch".into()]
    }
    fn expected_probes(&self) -> Vec<&'static str> {
        vec!["x.client_judged", "x.second_event_on_subscription"]
    }
}

/// Engine R wrapper: the real uplink reader tasks over loopback UDP sockets (C09, upstream of the
/// uplink channel).
pub struct RCheck {
    pub runs_quick: u64,
    pub runs_thorough: u64,
}

impl Check for RCheck {
    fn id(&self) -> &'static str {
        "C09"
    }
    fn engine(&self) -> &'static str {
        "R"
    }
    fn level(&self) -> &'static str {
        "fault_enumeration"
    }
    fn runs(&self, tier: Tier) -> u64 {
        match tier {
            Tier::Quick => self.runs_quick,
            Tier::Thorough => self.runs_thorough,
        }
    }
    fn generate(&self, run_seed: u64, _index: u64, _tier: Tier) -> Value {
        crate::rsim::generate(run_seed).to_value()
    }
    fn execute(&self, plan: &Value, want_excerpt: bool) -> RunOutcome {
        let plan = match crate::rsim::RPlan::from_value(plan) {
            Ok(p) => p,
            Err(e) => panic!("{e}"),
        };
        crate::rsim::execute(&plan, want_excerpt)
    }
    fn shrink(&self, plan: &Value) -> Vec<Value> {
        match crate::rsim::RPlan::from_value(plan) {
            Ok(p) => crate::rsim::shrink(&p).into_iter().map(|p| p.to_value()).collect(),
            Err(_) => Vec::new(),
        }
    }
    fn rule(&self) -> String {
        "one run = 1..3 uplink sockets on loopback served by the real reader tasks (sync_readers / spawn_reader over BatchUdpSocket::recv_batch), a peer that sends bursts of 1..70 datagrams of 1..1500 bytes with zero-length datagrams at chosen positions, and a seeded schedule of how long the readers may run between two actions (not at all / a few polls / to quiescence) and of re-synchronisations; per uplink the loop's channel must deliver exactly the non-empty datagrams sent to its socket, byte for byte, in order, each once, under that uplink's connection id".into()
    }
    fn assumptions(&self) -> Vec<String> {
        vec!["loopback UDP delivers synchronously and in order into the receiving socket's buffer; the volumes generated stay far below the buffer size; every task runs on one thread under a seeded current-thread runtime and the determinism spot check guards replay".into()]
    }
    fn real_components(&self) -> Vec<String> {
        vec!["src/sender/uplink.rs sync_readers / spawn_reader, src/net/batch_recv.rs BatchUdpSocket::recv_batch + RecvMmsgBuffer (recvmmsg), the uplink channel; kernel loopback UDP".into()]
    }
    fn stub_components(&self) -> Vec<String> {
        vec!["[R] the rest of the sender: only the reader tasks and the channel run here; the event loop is the simulator draining the channel".into()]
    }
    fn expected_probes(&self) -> Vec<&'static str> {
        vec!["r.uplink_judged"]
    }
}

fn w_profile(_index: u64) -> Profile {
    let mut p = Profile::base("w");
    p.p_fault_free = 0.3;
    p.net_loss = true;
    p.blackholes = true;
    p.link_loss = true;
    p.receiver_restart = true;
    p.critical = true;
    p.low_stall_threshold_bias = true;
    p.heavy_rate_bias = true;
    p.horizon_lo_ms = 5_000;
    p.horizon_hi_ms = 14_000;
    p
}

impl Check for WCheck {
    fn id(&self) -> &'static str {
        self.prop
    }
    fn engine(&self) -> &'static str {
        "W"
    }
    fn level(&self) -> &'static str {
        "fault_enumeration"
    }
    fn runs(&self, tier: Tier) -> u64 {
        match tier {
            Tier::Quick => self.runs_quick,
            Tier::Thorough => self.runs_thorough,
        }
    }
    fn generate(&self, run_seed: u64, index: u64, _tier: Tier) -> Value {
        let mut prof = w_profile(index);
        if self.prop == "C19" {
            prof.receiver_restart = false;
            prof.p_fault_free = 0.5;
        }
        let mut plan = lsim::plan::generate(run_seed, &prof);
        plan.cfg.conn_timeout_ms = 5000;
        if self.prop == "C06" || self.prop == "C10" {
            // mode switches at run time on a mostly idle session: the windows the keepalives
            // report must freeze whenever the configured mode is classic
            use crate::lsim::plan::{Action, TimedAction};
            let mut r = crate::prng::Rng::new(run_seed ^ 0xC1A5_51C);
            plan.cfg.classic = r.chance(0.3);
            plan.actions.retain(|a| !matches!(a.kind, Action::Control { .. }));
            let quiet_from = r.range(2_000, 5_000);
            if r.chance(0.4) {
                plan.actions.retain(|a| !matches!(a.kind, Action::Burst { .. } | Action::Rexmit { .. }));
            } else {
                plan.actions.retain(|a| !matches!(a.kind, Action::Burst { .. } | Action::Rexmit { .. }) || a.t + 1500 < quiet_from);
                for a in plan.actions.iter_mut() {
                    if let Action::Burst { n, pps, .. } = &mut a.kind {
                        *n = (*n).min((*pps).max(1));
                    }
                }
            }
            let mut t = quiet_from;
            let mut classic = plan.cfg.classic;
            // half of the runs place every switch a few milliseconds before a housekeeping tick,
            // after the last 15 ms flush tick before it: nothing else wakes the loop in between
            let just_before_tick = r.chance(0.5);
            for _ in 0..r.range(1, 3) {
                if just_before_tick {
                    t = (t / 1000 + 1) * 1000 - r.range(1, 9);
                }
                classic = !classic;
                let line = format!(r#"{{"jsonrpc":"2.0","method":"set_mode","params":{{"mode":"{}"}}}}"#, if classic { "classic" } else { "enhanced" });
                plan.actions.push(TimedAction { t, kind: Action::Control { line } });
                t += r.range(3_200, 6_000);
            }
            plan.horizon_ms = t + 1_000;
            plan.actions.sort_by_key(|a| a.t);
        }
        if self.prop == "C05" {
            // classic mode, two equal links, a liveness timeout below 5 s; the receiver's SRT side
            // stops (the links stay alive); one number goes out twice - first on the low-index
            // link, then, re-sent, on the other - and is NAKed 3..4.5 s later
            use crate::lsim::plan::{Action, TimedAction, hex};
            let mut r = crate::prng::Rng::new(run_seed ^ 0xC05_57);
            plan.cfg.classic = true;
            plan.cfg.stall_guard = false;
            plan.cfg.conn_timeout_ms = *r.pick(&[2_000u64, 2_500, 3_000, 5_000]);
            plan.n_links = 2;
            plan.links.truncate(2);
            while plan.links.len() < 2 {
                let l = plan.links[0].clone();
                plan.links.push(l);
            }
            for l in plan.links.iter_mut() {
                l.loss_up = 0.0;
                l.loss_down = 0.0;
                l.dup = 0.0;
                l.reorder = 0.0;
                l.jit_ms = 0;
                l.lat_ms = 5;
            }
            plan.actions.clear();
            plan.actions.push(TimedAction { t: 2_200, kind: Action::ReceiverMode { mode: "echo_only".into() } });
            let t0 = 2_600 + r.range(0, 900);
            plan.actions.push(TimedAction { t: t0, kind: Action::Burst { n: 1, pps: 100, size_lo: 300, size_hi: 600, stride: 1 } });
            plan.actions.push(TimedAction { t: t0 + r.range(60, 400), kind: Action::Rexmit { back: 0, count: 1 } });
            let seq = plan.client.start_seq & 0x7FFF_FFFF;
            let mut b = vec![0x80u8, 0x03, 0, 0];
            b.extend_from_slice(&seq.to_be_bytes());
            plan.actions.push(TimedAction { t: t0 + r.range(3_000, 4_400), kind: Action::Inject { link: r.below(2) as usize, hex: hex(&b), delay: 0 } });
            plan.horizon_ms = t0 + 7_000;
        }
        if self.prop == "C16" || self.prop == "C17" {
            // a fast and a slow uplink under a steady stream well above the classifier's floor:
            // the slow one is starved and reported share-weak tick after tick; reloads that change
            // nothing arrive meanwhile (the classifier's history lives in the loop, not in the links)
            use crate::lsim::plan::{Action, TimedAction};
            let mut r = crate::prng::Rng::new(run_seed ^ 0xC17_57);
            plan.cfg.classic = false;
            plan.cfg.quality = true;
            plan.actions.retain(|a| matches!(a.kind, Action::Critical { .. }));
            let n = plan.n_links.max(2);
            plan.n_links = n;
            while plan.links.len() < n {
                let l = plan.links[0].clone();
                plan.links.push(l);
            }
            plan.links.truncate(n);
            for (i, l) in plan.links.iter_mut().enumerate() {
                l.loss_up = 0.0;
                l.loss_down = 0.0;
                l.dup = 0.0;
                l.reorder = 0.0;
                l.jit_ms = 0;
                l.lat_ms = if i == 0 { r.range(2, 15) } else { r.range(150, 450) };
                if self.prop == "C16" {
                    // loss episodes drive back-offs and the loss latch; both links carry traffic
                    l.lat_ms = r.range(5, 120);
                    l.loss_up = *r.pick(&[0.0, 0.02, 0.15, 0.4, 0.7]);
                }
            }
            let secs = r.range(24, 34);
            let pps = *r.pick(&[40u32, 60, 100]);
            plan.actions.push(TimedAction { t: 2_500, kind: Action::Burst { n: pps * secs as u32, pps, size_lo: 900, size_hi: 1316, stride: 1 } });
            let same: String = (0..n).map(|l| format!("{}\n", crate::lsim::path_ip(l))).collect();
            let plus: String = (0..n + 1).map(|l| format!("{}\n", crate::lsim::path_ip(l))).collect();
            let mut t = 2_500 + r.range(3_000, 9_000);
            let mut grown = false;
            while t < 2_500 + secs * 1000 {
                // mostly reloads that change nothing; now and then one that adds an address (the
                // surviving links' state must not notice) and a later one that removes it again
                let text = if r.chance(0.35) {
                    grown = !grown;
                    if grown { plus.clone() } else { same.clone() }
                } else if grown {
                    plus.clone()
                } else {
                    same.clone()
                };
                plan.actions.push(TimedAction { t, kind: Action::Reload { text: Some(text) } });
                t += r.range(3_000, 13_000);
            }
            plan.horizon_ms = 2_500 + secs * 1000 + 1_500;
            if self.prop == "C17" && r.chance(0.5) {
                // the mode is switched to classic at run time while the slow link is being reported
                // weak; the classifier keeps judging every tick whatever the mode
                let t = 2_500 + r.range(5_000, 12_000);
                plan.actions.push(TimedAction { t, kind: Action::Control { line: r#"{"jsonrpc":"2.0","method":"set_mode","params":{"mode":"classic"}}"#.into() } });
                if r.chance(0.5) {
                    // ... and the stream stops a little later: under the throughput floor nothing is weak
                    let stop = t + r.range(2_000, 6_000);
                    for a in plan.actions.iter_mut() {
                        if let Action::Burst { n, pps, .. } = &mut a.kind {
                            *n = (*n).min(((stop - a.t) * *pps as u64 / 1000) as u32);
                        }
                    }
                    plan.horizon_ms = stop + 8_000;
                } else {
                    plan.horizon_ms = plan.horizon_ms.max(t + 21_000);
                    for a in plan.actions.iter_mut() {
                        if let Action::Burst { n, pps, .. } = &mut a.kind {
                            *n = (*n).max(((plan.horizon_ms - a.t) * *pps as u64 / 1000) as u32);
                        }
                    }
                }
            }
            plan.actions.sort_by_key(|a| a.t);
        }
        if self.prop == "C19" {
            // 1..4 reloads inside the traffic, at least 2.5 s apart (one housekeeping tick applies each)
            use crate::lsim::plan::{Action, TimedAction, gen_reload_text};
            let mut r = crate::prng::Rng::new(run_seed ^ 0x1919_57);
            let (lo, hi) = traffic_window(&plan);
            let mut t = lo + r.range(100, 1500);
            while t + 3000 < hi.max(lo + 6000) {
                plan.actions.push(TimedAction { t, kind: Action::Reload { text: gen_reload_text(&mut r, plan.n_links) } });
                t += r.range(2500, 5000);
            }
            plan.horizon_ms = plan.horizon_ms.max(t + 3000);
            if plan.n_links >= 2 && r.chance(0.3) {
                // one listed address cannot be bound at start-up (interface not up yet); the fault
                // clears and the operator sends SIGHUP with the file unchanged - the retry gesture
                plan.actions.retain(|a| !matches!(a.kind, Action::Reload { .. }));
                let k = r.below(plan.n_links as u64) as usize;
                plan.actions.push(TimedAction { t: 0, kind: Action::BindFail { link: k, on: true } });
                let t1 = r.range(1_500, 4_000);
                plan.actions.push(TimedAction { t: t1, kind: Action::BindFail { link: k, on: false } });
                let same: String = (0..plan.n_links).map(|l| format!("{}\n", crate::lsim::path_ip(l))).collect();
                let mut t2 = t1 + r.range(500, 3_000);
                for _ in 0..r.range(1, 2) {
                    plan.actions.push(TimedAction { t: t2, kind: Action::Reload { text: Some(same.clone()) } });
                    t2 += r.range(2_500, 4_000);
                }
                plan.horizon_ms = plan.horizon_ms.max(t2 + 2_000);
            }
            if r.chance(0.25) {
                // total outage: every path dead for longer than the connection time-out plus the
                // all-failed grace (housekeeping reports failure on every pass), then a reload
                // that names a fresh address - it must still be applied
                let t0 = plan.horizon_ms;
                for l in 0..plan.n_links {
                    plan.actions.push(TimedAction { t: t0, kind: Action::LinkLoss { link: l, on: true } });
                }
                let fresh = crate::lsim::path_ip(plan.n_links);
                let keep = if r.chance(0.5) { format!("{}\n", crate::lsim::path_ip(0)) } else { String::new() };
                plan.actions.push(TimedAction { t: t0 + r.range(16_500, 21_000), kind: Action::Reload { text: Some(format!("{keep}{fresh}\n")) } });
                plan.horizon_ms = t0 + 26_000;
            }
            plan.actions.sort_by_key(|a| a.t);
        }
        if self.prop == "C09" {
            inject_arbitrary(&mut plan, run_seed, run_seed % 4096, 120);
        }
        plan.to_value()
    }
    fn execute(&self, plan: &Value, want_excerpt: bool) -> RunOutcome {
        let plan = match LPlan::from_value(plan) {
            Ok(p) => p,
            Err(e) => panic!("{e}"),
        };
        let mut o = crate::wsim::execute(&plan, want_excerpt);
        let prefix = format!("{}.", self.prop);
        o.violations.retain(|v| v.monitor.starts_with(&prefix) || v.monitor.starts_with("W."));
        o
    }
    fn shrink(&self, plan: &Value) -> Vec<Value> {
        match LPlan::from_value(plan) {
            Ok(p) => lsim::plan::shrink(&p).into_iter().map(|p| p.to_value()).collect(),
            Err(_) => Vec::new(),
        }
    }
    fn rule(&self) -> String {
        "whole-loop runs: the real run_sender_with_config (select! loop, timers, glue, spawned tasks) on a paused-clock current-thread runtime with a seeded select! RNG, closed loop against the same network / receiver / client models, faults limited to network loss, delay, black holes, link loss, receiver restarts and injected uplink datagrams; wire-level oracles only (every judged client datagram on an uplink within 18 virtual ms, per-uplink order, once per uplink, duplicate budget; relayable uplink datagrams reach the client within 3 ms and internal ones never; keepalive gaps on live uplinks <= 2 s)".into()
    }
    fn assumptions(&self) -> Vec<String> {
        vec!["the loop's locals are not observable in whole-loop runs; a client datagram is judged only if, by the monitor's own wire-level stamps, a REG3 was delivered and some uplink was heard within the timeout minus 40 ms".into()]
    }
    fn real_components(&self) -> Vec<String> {
        vec!["run_sender_with_config in full: event_loop! select! arms and glue, tokio interval timers (paused clock), create_connections_from_ips, start-up probing, instant-ACK forwarding task, reader tasks (inert), everything engine L runs".into()]
    }
    fn stub_components(&self) -> Vec<String> {
        vec!["kernel UDP (H3/H4 seams, listener shim), SIGHUP (never raised), network / receiver / SRT client (seeded models), process clock (follows tokio's paused clock)".into()]
    }
    fn expected_probes(&self) -> Vec<&'static str> {
        vec!["w.accepted", "w.flush"]
    }
}

/// Several engines deciding one property: run index i goes to part i % n.
pub struct Multi {
    pub id: &'static str,
    pub parts: Vec<Box<dyn Check>>,
    /// part k gets weight[k] of every sum(weight) consecutive indices
    pub weights: Vec<u64>,
}

impl Multi {
    fn part_of(&self, index: u64) -> usize {
        let total: u64 = self.weights.iter().sum();
        let mut r = index % total;
        for (k, w) in self.weights.iter().enumerate() {
            if r < *w {
                return k;
            }
            r -= w;
        }
        0
    }
}

impl Check for Multi {
    fn id(&self) -> &'static str {
        self.id
    }
    fn engine(&self) -> &'static str {
        let names: Vec<&str> = self.parts.iter().map(|p| p.engine()).collect();
        let joined = names.join("+");
        // a handful of combinations exist; leak one small string per distinct combination
        static SEEN: std::sync::Mutex<Vec<&'static str>> = std::sync::Mutex::new(Vec::new());
        let mut seen = SEEN.lock().unwrap();
        if let Some(s) = seen.iter().find(|s| **s == joined) {
            return s;
        }
        let leaked: &'static str = Box::leak(joined.into_boxed_str());
        seen.push(leaked);
        leaked
    }
    fn level(&self) -> &'static str {
        self.parts[0].level()
    }
    fn runs(&self, tier: Tier) -> u64 {
        // the first part's budget fixes the total; weights split it
        let total: u64 = self.weights.iter().sum();
        self.parts[0].runs(tier) * total / self.weights[0]
    }
    fn generate(&self, run_seed: u64, index: u64, tier: Tier) -> Value {
        let k = self.part_of(index);
        serde_json::json!({"part": k, "plan": self.parts[k].generate(run_seed, index, tier)})
    }
    fn execute(&self, plan: &Value, want_excerpt: bool) -> RunOutcome {
        let k = plan["part"].as_u64().unwrap_or(0) as usize;
        let mut o = self.parts[k.min(self.parts.len() - 1)].execute(&plan["plan"], want_excerpt);
        o.stats.inc(&format!("runs.engine_{}", self.parts[k.min(self.parts.len() - 1)].engine()));
        o
    }
    fn shrink(&self, plan: &Value) -> Vec<Value> {
        let k = plan["part"].as_u64().unwrap_or(0) as usize;
        self.parts[k.min(self.parts.len() - 1)]
            .shrink(&plan["plan"])
            .into_iter()
            .map(|p| serde_json::json!({"part": k, "plan": p}))
            .collect()
    }
    fn rule(&self) -> String {
        self.parts
            .iter()
            .zip(self.weights.iter())
            .map(|(p, w)| format!("[engine {} x{}] {}", p.engine(), w, p.rule()))
            .collect::<Vec<_>>()
            .join(" || ")
    }
    fn assumptions(&self) -> Vec<String> {
        self.parts.iter().flat_map(|p| p.assumptions()).collect()
    }
    fn real_components(&self) -> Vec<String> {
        self.parts.iter().flat_map(|p| p.real_components().into_iter().map(move |c| format!("[{}] {c}", p.engine()))).collect()
    }
    fn stub_components(&self) -> Vec<String> {
        self.parts.iter().flat_map(|p| p.stub_components().into_iter().map(move |c| format!("[{}] {c}", p.engine()))).collect()
    }
    fn expected_probes(&self) -> Vec<&'static str> {
        self.parts.iter().flat_map(|p| p.expected_probes()).collect()
    }
    fn sample_view(&self, plan: &Value) -> Value {
        let k = plan["part"].as_u64().unwrap_or(0) as usize;
        serde_json::json!({"part": k, "engine": self.parts[k.min(self.parts.len() - 1)].engine(), "plan": self.parts[k.min(self.parts.len() - 1)].sample_view(&plan["plan"])})
    }
}

pub fn all() -> Vec<Box<dyn Check>> {
    let mut v = l_checks();
    // C01, C09 and C14 are decided by engine L and, for the loop glue, by engine W
    for id in ["C01", "C09", "C14"] {
        let pos = v.iter().position(|c| c.id() == id).unwrap();
        let l = v.remove(pos);
        let prop: &'static str = id;
        v.insert(
            pos,
            Box::new(Multi {
                id: prop,
                parts: vec![l, Box::new(WCheck { prop, runs_quick: 60, runs_thorough: 3000 })],
                weights: vec![5, 1],
            }),
        );
    }
    // C04: the shell (engine L) plus the bare scheduler on generated states (engine K)
    {
        let pos = v.iter().position(|c| c.id() == "C04").unwrap();
        let l = v.remove(pos);
        let k = Box::new(crate::ksim::checks::KCheck {
            id: "C04",
            level: "exploration",
            generate: crate::ksim::checks::gen_select,
            monitors: || vec![Box::new(crate::ksim::sel::C04K::default())],
            full_select_obs: true,
            quick_runs: 4_000,
            thorough_runs: 400_000,
            rule: "selection histories on the real core (generator shared with C03): whatever select_connection_idx returns must be, by the monitor's own event-derived model, registered since its last reset, connected, heard within the timeout, and not stall-gated in that decision",
            assumptions: &["state is built through the real event API (see C03)"],
            probes: &["c04k.decision", "c04k.ineligible_link_present"],
        });
        v.insert(pos, Box::new(Multi { id: "C04", parts: vec![l, k], weights: vec![1, 10] }));
    }
    // C02: closed loop on the shell (engine L) plus direct accounting histories (engine K)
    {
        let pos = v.iter().position(|c| c.id() == "C02").unwrap();
        let l = v.remove(pos);
        let k = Box::new(crate::ksim::checks::KCheck {
            id: "C02",
            level: "exploration",
            generate: crate::ksim::checks::gen_c02,
            monitors: || vec![Box::new(crate::ksim::c02::C02K::default())],
            full_select_obs: false,
            quick_runs: 10_000,
            thorough_runs: 1_000_000,
            rule: "direct accounting histories on the real core (20..200 events, 1..4 links): packets registered through queue + take_batch with numbers anywhere in a non-wrapping window of the 31-bit space (strides, jumps, retransmissions of numbers the cumulative ACK already passed, on the same or another link), cumulative ACKs in order / duplicate / stale / > 64 ahead, SRTLA ACKs on the holder or on another link, NAKs single and repeated, resets; after every event each link's outstanding log equals the set model as a set",
            assumptions: &["the arrival-link-first / first-other-holder loop of process_connection_events is mirrored for SRTLA ACKs; NAKs are applied to the named link directly (C05 judges attribution)"],
            probes: &["c02k.register", "c02k.cumulative_ack", "c02k.srtla_ack_arrival_link", "c02k.srtla_ack_other_holder", "c02k.nak", "c02k.reset"],
        });
        v.insert(pos, Box::new(Multi { id: "C02", parts: vec![l, k], weights: vec![1, 25] }));
    }
    v.extend(k_checks());
    // C03: engine K histories plus drop detection on the real shell (override, reload, glue stamps)
    {
        let pos = v.iter().position(|c| c.id() == "C03").unwrap();
        let k = v.remove(pos);
        let l = Box::new(LCheck {
            id: "C03",
            level: "exploration",
            profile: sel_l_profile,
            post: Some(c03l_post),
            monitors: || vec![Box::new(crate::mon::sel_l::C03L::new()) as Box<dyn Monitor>],
            quick_runs: 300,
            thorough_runs: 15_000,
            rule: "closed-loop runs on the real shell (2..4 uplinks, guard mostly on with low thresholds, black holes, a continuous stream with must-land packets): in a third of the runs a gated link becomes the only one left after a reload, in a third every link is stamped weak / loss-degraded right after a housekeeping tick; whenever the monitor's own usable set is non-empty the client datagram must be queued on some uplink",
            assumptions: &["the weak / loss-degraded stamps are written directly between two housekeeping ticks (inputs the loop glue writes; the next tick overwrites them)"],
            probes: &["c03l.decision_with_usable_link", "c03l.every_usable_link_quality_gated", "c03l.single_link_left"],
        });
        v.insert(pos, Box::new(Multi { id: "C03", parts: vec![k, l], weights: vec![20, 1] }));
    }
    // C06 / C10: "classic housekeeping moves no window" on the real loop (run-time mode switches)
    for (prop, wq) in [("C06", 60u64), ("C10", 60u64)] {
        let pos = v.iter().position(|c| c.id() == prop).unwrap();
        let first = v.remove(pos);
        let weight = if prop == "C06" { 300 } else { 6 };
        let w = Box::new(WCheck { prop, runs_quick: wq, runs_thorough: 3000 });
        v.insert(pos, Box::new(Multi { id: prop, parts: vec![first, w], weights: vec![weight, 1] }));
    }
    // C05: the tracker lives in the event loop: NAK attribution as the published windows show it
    {
        let pos = v.iter().position(|c| c.id() == "C05").unwrap();
        let l = v.remove(pos);
        let w = Box::new(WCheck { prop: "C05", runs_quick: 40, runs_thorough: 1500 });
        v.insert(pos, Box::new(Multi { id: "C05", parts: vec![l, w], weights: vec![37, 1] }));
    }
    // C16: the controller lives in the event loop too: what the real loop publishes about the soft cap
    {
        let pos = v.iter().position(|c| c.id() == "C16").unwrap();
        let k = v.remove(pos);
        let w = Box::new(WCheck { prop: "C16", runs_quick: 24, runs_thorough: 1500 });
        v.insert(pos, Box::new(Multi { id: "C16", parts: vec![k, w], weights: vec![800, 1] }));
    }
    // C17: the classifier's history lives in the event loop: verdicts as published by the real loop
    {
        let pos = v.iter().position(|c| c.id() == "C17").unwrap();
        let k = v.remove(pos);
        let w = Box::new(WCheck { prop: "C17", runs_quick: 24, runs_thorough: 1500 });
        v.insert(pos, Box::new(Multi { id: "C17", parts: vec![k, w], weights: vec![800, 1] }));
    }
    // C08: engine L (the whole recovery loop, long horizons) plus the tear-down cause on the real loop
    {
        let pos = v.iter().position(|c| c.id() == "C08").unwrap();
        let l = v.remove(pos);
        let w = Box::new(WCheck { prop: "C08", runs_quick: 60, runs_thorough: 3000 });
        v.insert(pos, Box::new(Multi { id: "C08", parts: vec![l, w], weights: vec![6, 1] }));
    }
    // C19: engine L (exact snapshots around the real apply call) plus the real loop's SIGHUP arm and apply glue
    {
        let pos = v.iter().position(|c| c.id() == "C19").unwrap();
        let l = v.remove(pos);
        let w = Box::new(WCheck { prop: "C19", runs_quick: 80, runs_thorough: 4000 });
        v.insert(pos, Box::new(Multi { id: "C19", parts: vec![l, w], weights: vec![5, 1] }));
    }
    // C12: engine K histories plus the relational check around every routing decision of the real shell
    {
        let pos = v.iter().position(|c| c.id() == "C12").unwrap();
        let k = v.remove(pos);
        let l = Box::new(LCheck {
            id: "C12",
            level: "exploration",
            profile: c12l_profile,
            post: Some(c12l_post),
            monitors: || vec![Box::new(crate::mon::sel_l::C12L::new()) as Box<dyn Monitor>],
            quick_runs: 60,
            thorough_runs: 6_000,
            rule: "closed-loop runs on the real shell (2..4 uplinks, both modes, guard on / off / toggled at run time, low thresholds, black holes, loss, must-land packets, reloads): around every routing decision that is not followed by uplink datagrams in the same loop iteration, every uplink that was handed nothing keeps its liveness / accounting projection; with the guard off all stall state is cleared and the shell's choice equals the real selector's on clones with erased stall history",
            assumptions: &["links that were handed a datagram in the step (the chosen one, probe copies) are excluded from the projection comparison: queueing and flushing legitimately change their accounting"],
            probes: &["c12l.guard_state_moved", "c12l.guard_off_decision", "c12l.guard_off_with_history"],
        });
        v.insert(pos, Box::new(Multi { id: "C12", parts: vec![k, l], weights: vec![20, 1] }));
    }
    // C11 and C13: engine K histories plus the same monitors on live closed-loop decisions (engine L)
    for (id, mk) in [
        ("C11", (|| vec![Box::new(crate::mon::sel_l::C11L::new()) as Box<dyn Monitor>]) as MonFactory),
        ("C13", (|| vec![Box::new(crate::mon::sel_l::C13L::new()) as Box<dyn Monitor>]) as MonFactory),
    ] {
        let pos = v.iter().position(|c| c.id() == id).unwrap();
        let k = v.remove(pos);
        let l = Box::new(LCheck {
            id,
            level: "exploration",
            profile: sel_l_profile,
            post: Some(sel_l_post),
            monitors: mk,
            quick_runs: 60,
            thorough_runs: 6_000,
            rule: "closed-loop runs on the real shell (2..4 uplinks, stall guard on with low thresholds, black holes, link loss, receiver restarts, run-time configuration changes, a continuous stream): every routing decision after establishment is turned into the same observation record engine K uses and judged by the same monitor code, with liveness / proof clocks taken from the link state before the step",
            assumptions: &["in engine-L runs the proof and liveness stamps are read from the link state before the decision (C09 checks that they are stamped correctly); decisions the must-land override may have replaced are not judged for C11"],
            probes: if id == "C11" { &["c11l.decisions"] } else { &["c13l.decisions"] },
        });
        v.insert(pos, Box::new(Multi { id, parts: vec![k, l], weights: vec![100, 1] }));
    }
    v.push(Box::new(Multi {
        id: "C18",
        parts: vec![Box::new(crate::tsim::c18::C18Check), Box::new(crate::ssim::C18S)],
        weights: vec![1, 1],
    }));
    v.push(Box::new(crate::tsim::c20::C20Check));
    // C09: the reader tasks upstream of the uplink channel (engine R)
    {
        let pos = v.iter().position(|c| c.id() == "C09").unwrap();
        let first = v.remove(pos);
        v.insert(pos, Box::new(Multi { id: "C09", parts: vec![first, Box::new(RCheck { runs_quick: 160, runs_thorough: 8000 })], weights: vec![3, 1] }));
    }
    // C18 / C20: the control socket's connection task on socket pairs (engine X)
    for (prop, weight) in [("C18", 100u64), ("C20", 150u64)] {
        let pos = v.iter().position(|c| c.id() == prop).unwrap();
        let first = v.remove(pos);
        let x = Box::new(XCheck { prop, runs_quick: 400, runs_thorough: 60_000 });
        v.insert(pos, Box::new(Multi { id: prop, parts: vec![first, x], weights: vec![weight, 1] }));
    }
    v
}

fn k_checks() -> Vec<Box<dyn Check>> {
    use crate::ksim::checks::{KCheck, gen_c06, gen_c16, gen_c17, gen_select};
    vec![Box::new(KCheck {
        id: "C06",
        level: "exploration",
        generate: gen_c06,
        monitors: || vec![Box::new(crate::ksim::c06::C06)],
        full_select_obs: false,
        quick_runs: 20_000,
        thorough_runs: 1_000_000,
        rule: "one run = one seeded timed history (20..300+ events, 1..3 links, both modes, configuration changed mid-history) of earned SRTLA ACKs with the global +1, raw ACK-rule calls with in-flight arguments up to i32::MAX, NAKs isolated and in bursts (< 1 s apart), time-based recovery at spacings from 0 ms to minutes and RTT velocities from negative to > 2, housekeeping ticks, mark_for_recovery / reconnect / REG3 / REG_ERR, from boundary and random starting windows. After every event: range, direction by event kind, fast-recovery entry/exit thresholds, 20000 after a tear-down, no change on a classic tick; overflow checks are on. Non-trivial = at least one ACK, NAK, recovery or tear-down event was judged; distinct = distinct event-log hashes among non-trivial runs",
        assumptions: &[
            "starting windows are written directly but only inside [1000, 60000]",
            "the in-flight argument of the two ACK rules is passed directly (the statement quantifies it up to i32::MAX)",
            "the per-link housekeeping calls (recovery only when not classic) are mirrored from src/sender/housekeeping.rs; engine L (C10) checks that glue line on the real shell",
        ],
        probes: &["c06.nak", "c06.nak_at_floor", "c06.ack", "c06.ack_near_cap", "c06.ack_rule_extreme_in_flight", "c06.recovery_increased", "c06.teardown", "c06.fast_recovery_entered", "c06.fast_recovery_left", "c06.housekeeping_tick"],
    }),
    Box::new(KCheck {
        id: "C03",
        level: "exploration",
        generate: gen_select,
        monitors: || vec![Box::new(crate::ksim::sel::C03::default())],
        full_select_obs: true,
        quick_runs: 6_000,
        thorough_runs: 200_000,
        rule: SEL_RULE_C03,
        assumptions: SEL_ASSUMPTIONS,
        probes: &["c03.decisions", "c03.decisions_with_gates_engaged", "c03.every_link_under_some_gate", "c03.single_usable_link"],
    }),
    Box::new(KCheck {
        id: "C11",
        level: "exploration",
        generate: gen_select,
        monitors: || vec![Box::new(crate::ksim::sel::C11::default())],
        full_select_obs: true,
        quick_runs: 6_000,
        thorough_runs: 200_000,
        rule: SEL_RULE_C11,
        assumptions: SEL_ASSUMPTIONS,
        probes: &["c11.decisions", "c11.switched", "c11.held_by_hysteresis", "c11.last_link_skipped", "c11.quality_gate_2pct", "c11.soft_cap_active", "c11.cap_exceeded_somewhere", "c11.warming_link_scored"],
    }),
    Box::new(KCheck {
        id: "C12",
        level: "exploration",
        generate: gen_select,
        monitors: || vec![Box::new(crate::ksim::sel::C12)],
        full_select_obs: true,
        quick_runs: 1_200,
        thorough_runs: 60_000,
        rule: SEL_RULE_C12,
        assumptions: SEL_ASSUMPTIONS,
        probes: &["c12.decisions", "c12.guard_state_moved", "c12.guard_off_decision", "c12.guard_off_with_history"],
    }),
    Box::new(KCheck {
        id: "C13",
        level: "exploration",
        generate: gen_select,
        monitors: || vec![Box::new(crate::ksim::sel::C13::default())],
        full_select_obs: true,
        quick_runs: 6_000,
        thorough_runs: 200_000,
        rule: SEL_RULE_C13,
        assumptions: SEL_ASSUMPTIONS,
        probes: &["c13.latch_engaged", "c13.latch_released", "c13.lapse_resets_run", "c13.pull_engaged", "c13.pull_released", "c13.escalated_from_pull", "c13.ceiling_below_floor", "c13.rtt_bound_window", "c13.ceiling_bound_window", "c13.latched_with_drained_backlog", "c13.dwell_in_progress"],
    }),
    Box::new(KCheck {
        id: "C16",
        level: "exploration",
        generate: gen_c16,
        monitors: || vec![Box::new(crate::ksim::cc::C16::default())],
        full_select_obs: false,
        quick_runs: 20_000,
        thorough_runs: 1_000_000,
        rule: "one run = one seeded timed history (30..250 ticks, 1..3 links) for the real LinkCcController::tick_all over real connections whose RTT samples, cumulative byte and NAK counters and bitrate estimate follow a per-run regime (no loss, light loss, heavy loss, on/off loss, RTT inflation, RTT square wave) with zero / steady / 100x burst rates, ticks 1 ms to 10 s apart, links dropping out of and returning to the tick set, and counter resets after reconnect. After every tick, against the previous snapshot and the tick's inputs: bounds, floor until an RTT sample exists, a decrease only as x0.85 loss back-off (not below min(observed, previous), never raising) or one-shot x0.75 drain entry, after seeding growth <= 6 % and <= 2 x measured, loss latch set only after the reported loss average stayed > 0.55 at every tick for >= 4 s and cleared only at < 0.25. Non-trivial = at least one tick with an RTT sample was judged; distinct = distinct event-log hashes among non-trivial runs",
        assumptions: &[
            "cumulative byte and NAK counters and the bitrate estimate are written directly (measured quantities; monotone except across a reset)",
            "the loss average judged by the latch rule is the one the controller reports in its snapshot; its value is only range-checked",
            "a drain entry clamped by the 100 kbit/s floor is accepted (max(x0.75, floor))",
        ],
        probes: &["c16.link_ticks", "c16.bootstrap_tick", "c16.seeded", "c16.increase", "c16.backoff_decrease", "c16.backoff_floored_at_delivered_rate", "c16.drain_entry", "c16.outlier_burst_clamped", "c16.loss_average_high", "c16.loss_latch_set", "c16.loss_latch_cleared"],
    }),
    Box::new(KCheck {
        id: "C17",
        level: "exploration",
        generate: gen_c17,
        monitors: || vec![Box::new(crate::ksim::cc::C17::default())],
        full_select_obs: false,
        quick_runs: 20_000,
        thorough_runs: 1_200_000,
        rule: "one run = one seeded tick-by-tick history (30..220 ticks, 1..4 links) for the real WeakLinkFilter::classify with per-link bitrates that idle, starve and cross the 100 kbit/s bypass floor, RTTs with one-tick blips and sustained rises (queue-building via real RTT-tracker samples), links joining, leaving and being dropped from the tick set. A temporal monitor checks: never weak while disconnected or under the floor, a delay verdict only if the delay signal also held on the previous tick, share-weak runs never longer than 15 and followed by three forced not-weak ticks, entering low-share only below 1/4 of fair share, leaving only at >= 3/4 minus one permille. Non-trivial = at least one connected link was classified above the floor; distinct = distinct event-log hashes among non-trivial runs",
        assumptions: &[
            "the bitrate estimate is written directly (measured quantity); RTT state comes from real update_estimate calls",
            "the delay tier is the one the classifier reports (tier arithmetic is covered by the repository's own tests); permille rounding is in the statement's favour",
        ],
        probes: &["c17.ticks", "c17.bypass_tick", "c17.delay_signal", "c17.delay_weak", "c17.enter_low_share", "c17.leave_low_share", "c17.probation_armed", "c17.probation_tick"],
    })]
}

#[allow(dead_code)]
const SEL_GEN: &str = "one run = one seeded timed history (30..260+ events, 1..4 links) over the real core: REG3 / REG_ERR / tear-downs, RTT baselines from none to 2 s, backlogs up to hundreds of packets, earned SRTLA ACKs, cumulative ACKs draining backlogs, NAKs, keepalive echoes, inbound bytes, weak / loss-degraded / CC-target stamps, measured bitrates, clock advances from 0 ms to a minute (boundary values around 250 ms, 1 s, 3 s, 5 s), configuration and guard toggles mid-history, and routing decisions with any previous index (none, valid, out of range); about one event in ten expands into a tempting latch trace (backlog, proof, silence, then single ACK / drained backlog / sustained proof with or without a lapse).";
const SEL_RULE_C03: &str = const_format_c03();
const fn const_format_c03() -> &'static str {
    "selection histories (see generator text in DESIGN.md §5/§P-C03): at every routing decision an independent usable set (REG3 since last reset, connected, heard within the timeout by the monitor's own stamps) is computed from the events alone; usable set non-empty => the scheduler returns a valid index. Non-trivial = at least one decision with a non-empty usable set; distinct = distinct event-log hashes among non-trivial runs"
}
const SEL_RULE_C11: &str = "selection histories (same generator as C03): at every enhanced-mode decision the monitor recomputes eligibility, the in-flight cap, the 2% quality gate, the 80% warming weight and the soft-cap factor from the pre-state with its own formulas (the quality multiplier is read back and range-checked), then checks the decision relations with relative tolerance 1e-9: chosen link not skipped, capped link not chosen while an unconstrained one exists, a switch needs >= 1.10x, a hold means nobody reaches 1.10x, otherwise argmax; and that repeating the call on the resulting state returns the same index. Non-trivial = at least one enhanced decision returned a link; distinct = distinct event-log hashes among non-trivial runs";
const SEL_RULE_C12: &str = "selection histories (same generator as C03): around every routing decision the liveness/accounting projection of every link (connected, stamps, window, outstanding log, in-flight, loss counters, phase, reconnect state, RTT tracker, queue depth, bitrate tracker) is compared before/after; with the guard off every stall flag, pull and latch must be cleared and the decision must equal the decision on a clone whose stall history was erased. Non-trivial = at least one decision moved guard-private state or ran with the guard off; distinct = distinct event-log hashes among non-trivial runs";
const SEL_RULE_C13: &str = "selection histories (same generator as C03, 2..3 links every fourth run): an independent temporal monitor with its own proof / heard clocks judges every edge: latch rises only with (backlog >= threshold or pull held) and proof older than clamp(4 x srtt, 1000, ceiling) (ceiling wins below the floor, no RTT => ceiling), never on a never-proved link; it falls, absent reset or guard-off, only after every decision since the run start saw fresh proof for >= 2 x window; pull rises only on loaded total silence and falls only when heard again or disconnected; counters move exactly on rising edges. Non-trivial = at least one latch or pull edge was judged; distinct = distinct event-log hashes among non-trivial runs";
const SEL_ASSUMPTIONS: &[&str] = &[
    "state is built through the real event API; direct writes are limited to the glue inputs (weak, loss_degraded, cc_target_bps), starting windows inside [1000, 60000], and measured quantities (bitrate estimate, cumulative byte / NAK counters)",
    "the REG3 / REG_ERR branches and the liveness / proof stamping lines of src/sender/uplink_recv.rs are mirrored by the driver",
    "the stall-gated flag of a decision is read back right after it",
];

fn l_checks() -> Vec<Box<dyn Check>> {
    vec![Box::new(LCheck {
        id: "C01",
        level: "fault_enumeration",
        profile: c01_profile,
        post: None,
        monitors: || vec![Box::new(crate::mon::c01::C01::new())],
        quick_runs: 300,
        thorough_runs: 20_000,
        rule: "one run = one seeded plan (1..4 uplinks, mode, batch regimes via client rate, link/receiver parameters, timed fault actions) executed by the event-loop simulator against the real forwarding shell; every arm interleaving is decided by the seeded tie-break. A run is non-trivial if at least one client datagram was accepted after the session was established or a flush/probe/reset probe fired; distinct = distinct event-log hashes among non-trivial runs",
        assumptions: &[
            "the mirrored select! glue calls the real arms in the order of src/sender/mod.rs at the pinned commit",
            "stream datagrams leave only through BatchUdpSocket::send_batch (observed at hook H3)",
            "the stall-gated flag read back after a routing decision is the one that decision computed",
        ],
        probes: &["c01.accepted", "c01.threshold_flush", "c01.timer_flush"],
    }),
    Box::new(LCheck {
        id: "C02",
        level: "exploration",
        profile: c02_profile,
        post: Some(c02_post),
        monitors: || vec![Box::new(crate::mon::c02::C02::new())],
        quick_runs: 400,
        thorough_runs: 20_000,
        rule: "one run = one seeded closed-loop plan (send side fault-free) with client retransmissions of already-acknowledged numbers, duplicate probes, receiver ACK/NAK traffic plus forged well-formed cumulative ACKs (stale, duplicate, >64 ahead), SRTLA ACK lists on any link and NAK singles/ranges; one uplink datagram per step. After every step each link's outstanding log is compared, as a set, with the set model. Non-trivial = at least one send, ACK, NAK or reset event was applied; distinct = distinct event-log hashes among non-trivial runs",
        assumptions: &[
            "send failures are outside C02's quantifier and are not injected in these runs",
            "which other holder an unattributed SRTLA ACK retires, and whether a NAK is charged, are taken from observation (C05 judges the charge)",
            "the packet log exposed by the repository's own test-internals feature is the implementation's notion of outstanding packets",
        ],
        probes: &["c02.sent", "c02.cumulative_ack", "c02.srtla_ack_retired", "c02.nak_retired", "c02.reset"],
    }),
    Box::new(LCheck {
        id: "C04",
        level: "fault_enumeration",
        profile: c04_profile,
        post: Some(c04_post),
        monitors: || vec![Box::new(crate::mon::c04::C04::new())],
        quick_runs: 400,
        thorough_runs: 12_000,
        rule: "one run = one seeded closed-loop plan on 2..4 uplinks with black holes, link loss, short timeouts, receiver restarts, mode/quality/guard/timeout changes at run time, retransmit-flagged data and critical windows all along the stream. At every routing decision after the session is established the link that received the unique copy is judged by an independent eligibility model (REG3 since last reset; heard within the timeout in force by the monitor's own stamps; not stall-gated in this decision). Non-trivial = at least one routed datagram while an ineligible-but-connected link existed or a must-land packet was routed; distinct = distinct event-log hashes among non-trivial runs",
        assumptions: &[
            "the stall-gated flag read back immediately after a routing decision is the one that decision computed",
            "the timeout in force at a routing decision is the configured value (the selector copies it onto the links first)",
        ],
        probes: &["c04.routed", "c04.must_land_packet", "c04.ineligible_link_present"],
    }),
    Box::new(LCheck {
        id: "C05",
        level: "exploration",
        profile: c05_profile,
        post: Some(c05_post),
        monitors: || vec![Box::new(crate::mon::c05::C05::new())],
        quick_runs: 1500,
        thorough_runs: 15_000,
        rule: "one run = one seeded closed-loop plan with duplicate probes, retransmissions routed to other links, sequence strides that collide modulo 16384, a 5000/5001 ms expiry-boundary scenario under a silent receiver, reload removing links, and NAK lists from the receiver model plus forged ones (singles, ranges, repeats, unknown numbers); one uplink datagram per step. Every NAK entry is judged against an independent ownership table and the exact charge arithmetic is checked per datagram. Non-trivial = at least one NAK entry was judged; distinct = distinct event-log hashes among non-trivial runs",
        assumptions: &[
            "which holder lost a NAKed number is read from the packet log after the datagram (one datagram per step)",
            "for a NAK the sender no longer has a record for, charging any one holder or nobody is accepted",
        ],
        probes: &["c05.nak_entry", "c05.tracked", "c05.untracked", "c05.charged", "c05.unknown_nak", "c05.two_holders", "c05.untracked_two_holders", "c05.untracked_two_holders_one_at_floor"],
    }),
    Box::new(LCheck {
        id: "C10",
        level: "exploration",
        profile: c10_profile,
        post: Some(c10_post),
        monitors: || vec![Box::new(crate::mon::c10::C10::new())],
        quick_runs: 400,
        thorough_runs: 15_000,
        rule: "one run = one seeded closed-loop plan in classic mode with the stall guard off, starting from a random window vector in [1000, 60000], with retransmit-flagged data and critical windows, SRTLA ACKs, cumulative ACKs, NAKs and housekeeping ticks (some runs begin in enhanced mode and switch, leaving quality caches stale); one uplink datagram per step. An independent re-implementation of the reference rules predicts every routing choice and every window from the observed pre-state. Non-trivial = at least one decision was compared; distinct = distinct event-log hashes among non-trivial runs",
        assumptions: &[
            "usable = REG3 since last reset, connected, heard within the configured timeout (monitor's own stamps)",
            "which link a NAK was charged to is taken from observation (C05 judges it)",
        ],
        probes: &["c10.decision", "c10.srtla_ack", "c10.nak", "c10.must_land_packet", "c10.housekeeping"],
    }),
    Box::new(LCheck {
        id: "C09",
        level: "fault_enumeration",
        profile: c09_profile,
        post: Some(c09_post),
        monitors: || vec![Box::new(crate::mon::c09::C09::new())],
        quick_runs: 400,
        thorough_runs: 20_000,
        rule: "one run = one seeded closed-loop plan plus 50..600 adversarial datagrams (type codes swept over the whole 16-bit space across runs, lengths 0..1500, truncated ACK/NAK/keepalive, forged timestamps and sequence numbers) injected on every uplink in every link state, before and after the client address is known, with WouldBlock and hard errors injected on the client socket. A relay ledger at the client seam, a liveness-stamp differential and a delivery-proof rule are evaluated after every step; any panic outside the simulator is a violation. Non-trivial = at least one uplink datagram was classified; distinct = distinct event-log hashes among non-trivial runs",
        assumptions: &[
            "SRTLA-internal is decided by type code alone (REG2, REG3, REG_ERR, REG_NGP, SRTLA ACK, keepalive), whatever the length",
            "a datagram is excused only if every delivery attempt for it hit an injected hard error on the client socket",
            "the 3-line instant-forward task is mirrored: what it would send is counted as delivered",
        ],
        probes: &["c09.relayable_datagram", "c09.internal_datagram", "c09.runt_datagram", "c09.unknown_type_relayed", "c09.no_client_yet", "c09.instant_forward_path", "c09.fast_path_hard_error", "c09.proof_by_earned_ack", "c09.proof_by_keepalive", "c09.drain_budget_exhausted"],
    }),
    Box::new(LCheck {
        id: "C14",
        level: "fault_enumeration",
        profile: c14_profile,
        post: Some(c14_post),
        monitors: || vec![Box::new(crate::mon::c14::C14::new())],
        quick_runs: 400,
        thorough_runs: 15_000,
        rule: "one run = one seeded closed-loop plan (1..4 uplinks, up to 40 s) with late / stalled housekeeping ticks, link loss and resets, failing sends, and echoes that are timely, late, duplicated, truncated (< 10 bytes), carry zero / future / > 10 s old timestamps or trailing bytes (forged echoes are injected on top of the receiver's verbatim ones). Cadence is checked tick by tick on the socket seam in virtual time, every keepalive frame is reference-decoded against the link's pre-step state, and the RTT state may change across a keepalive step iff a probe was outstanding and 0 < now - ts <= 10000. Non-trivial = at least one keepalive or echo was judged; distinct = distinct event-log hashes among non-trivial runs",
        assumptions: &[
            "a keepalive counts as sent when it is handed to the socket (an injected send error does not excuse the cadence)",
            "RTT samples taken from cumulative SRT ACKs are outside the statement; steps that also carry an SRT ACK are not judged for the sampling rule",
        ],
        probes: &["c14.keepalive_sent", "c14.keepalive_due", "c14.echo", "c14.unsolicited_echo", "c14.sample_taken", "c14.invalid_echo_timing", "c14.truncated_echo"],
    }),
    Box::new(LCheck {
        id: "C15",
        level: "exploration",
        profile: c15_profile,
        post: Some(c15_post),
        monitors: || vec![Box::new(crate::mon::c15::C15::new())],
        quick_runs: 300,
        thorough_runs: 10_000,
        rule: "wire tap over closed-loop runs: every datagram crossing the simulated network in either direction (legitimate traffic, 400 adversarial datagrams per run with type codes swept across runs, forged ACK/NAK lists with wide ranges, and a systematic corruption schedule of every known type code truncated to every length 0..24) is decoded by the real decoders and by an in-tree reference codec and the results compared; every REG1/REG2/keepalive frame the sender emits is checked against its exact layout. Non-trivial = at least one short (<= 24 byte) datagram or NAK was decoded; distinct = distinct event-log hashes among non-trivial runs",
        assumptions: &[
            "restricted claim: the simulator decides the codec only on datagrams that cross the simulated network (including its corruptor); totality over all byte strings of length 0..1500 is sampled, not enumerated",
            "NAK entries start after a 4-byte header, the layout the repository's decoder, builders and tests use",
        ],
        probes: &["c15.short_datagram", "c15.nak_decoded", "c15.reg_frame", "c15.keepalive_frame"],
    }),
    Box::new(LCheck {
        id: "C19",
        level: "fault_enumeration",
        profile: c19_profile,
        post: Some(c19_post),
        monitors: || vec![Box::new(crate::mon::c19::C19::new())],
        quick_runs: 400,
        thorough_runs: 15_000,
        rule: "one run = one seeded closed-loop plan with 1..5 reloads mid-stream through the mirrored SIGHUP arm (analyze_ip_reload on a real temp file that is missing / empty / whitespace / garbage / mixed / duplicated / IPv4+IPv6) and the real apply_connection_changes at the next tick; old and new address sets overlap, are disjoint or equal, some runs start with duplicate addresses, and binds of new addresses fail by injection. Exact snapshots around the apply call are compared: survivors (identity, socket, full Debug state, order), removed links (list, I/O map, NAK-attribution lookups for numbers they carried), additions (once, in order) and the routing choice. Non-trivial = at least one SIGHUP was judged; distinct = distinct event-log hashes among non-trivial runs",
        assumptions: &[
            "a parsable address is one std::net::IpAddr::from_str accepts after trimming",
            "an IPv6 uplink towards the IPv4 receiver cannot be created in this sandbox and may be absent after a reload",
        ],
        probes: &["c19.sighup", "c19.refused", "c19.accepted", "c19.applied", "c19.removed", "c19.added", "c19.survivor_mid_stream"],
    }),
    Box::new(LCheck {
        id: "C07",
        level: "fault_enumeration",
        profile: c07_profile,
        post: Some(c07_post),
        monitors: || vec![Box::new(crate::mon::c07::C07::new())],
        quick_runs: 1500,
        thorough_runs: 100_000,
        rule: "one run = one seeded plan on 2..3 uplinks with start-up probing; 60% of runs drive an adversarial receiver: a sequence of up to 14 handshake packets (REG_NGP, REG2 well-formed / short / over-long / on the wrong link / with a foreign id, REG3, REG_ERR, REG_NAK) on any link at instants straddling the 1 s retry, 2 s probe, 4 s REG2 and 5 s grace deadlines by +-1 ms, replies late, twice or never; the rest use the cooperative receiver with loss, delay, black holes and restarts. A wire-level protocol monitor (one REG1 outstanding, driver REG1 only while nothing is connected, id adoption only from a full-length REG2 on the pending uplink, exactly one broadcast round, ids carried, connected only on REG3, REG_ERR cancels, 4 s abandonment, bounded liveness in clean runs) is evaluated after every step, one uplink datagram per step. Non-trivial = at least one REG1 was sent; distinct = distinct event-log hashes among non-trivial runs",
        assumptions: &[
            "the immediate REG1 that answers a REG_NGP is judged by the one-outstanding rule only; the 'only while no uplink is registered' clause is about the housekeeping driver, as the statement says",
            "reload (which renumbers uplinks under an index-based pending slot) is outside C07's quantifier and not part of these runs",
        ],
        probes: &["c07.reg1_sent", "c07.driver_reg1", "c07.immediate_reg1", "c07.reg2_accepted", "c07.reg2_short", "c07.reg2_wrong_link", "c07.reg2_late_or_unsolicited", "c07.reg_err_delivered", "c07.reg1_timed_out", "c07.broadcast_round", "c07.connected_rise", "c07.startup_probe", "c07.liveness_judged"],
    }),
    Box::new(LCheck {
        id: "C08",
        level: "fault_enumeration",
        profile: c08_profile,
        post: Some(c08_post),
        monitors: || vec![Box::new(crate::mon::c08::C08::new())],
        quick_runs: 400,
        thorough_runs: 15_000,
        rule: "one run = one seeded plan on 2..4 uplinks, both modes, every connection-timeout setting in its clamped range, with per-link fault/repair schedules (silent black hole in either direction, total loss, lost handshake replies, receiver restarts answered REG_NGP/REG_ERR, send errors, bind failures so that the exponential back-off grows) and a thin continuous stream; horizons of 15 s to 10 virtual minutes, faults confined to the first part so the liveness clock can run out. Monitors: tear-down cause (silence >= the timeout in force by the monitor's own stamps, or an injected send failure - never a routing penalty), retry spacing (>= 1 s before / >= 5 s after first establishment, never more than 120 s + one tick apart while down), bounded liveness (precondition evaluated from the plan and the receiver model at every tick), clean rejoin, survivors keep carrying the stream. Non-trivial = at least one tear-down, attempt or rejoin was judged; distinct = distinct event-log hashes among non-trivial runs",
        assumptions: &[
            "between a run-time timeout change and the next routing decision either the old or the new value may be in force",
            "receiver link / group expiry is 10 s as in srtla_rec; the receiver accepts a REG2 iff it holds the group id, and a REG1 from an address it does not know",
            "bounded liveness is judged only for links whose path has no random loss and no fault left on at the end of the plan",
            "a REG_ERR delivered to a link is the peer's explicit rejection and is not judged as a sender-side tear-down",
        ],
        probes: &["c08.teardown_of_connected_link", "c08.cause_silence", "c08.cause_send_failure", "c08.attempt", "c08.rejoin", "c08.stream_with_survivor", "c08.stream_while_a_link_is_down", "c08.liveness_clock_running", "c08.backoff_grew"],
    })]
}
