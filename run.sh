#!/bin/sh
# ./run.sh <ID> quick|thorough   run one property check (rebuilds from /repo's working tree)
# ./run.sh replay <file>         re-execute a replay file
# ./run.sh setup                 build the simulator and run the determinism self-test
# Exit codes: 0 held, 1 violation (VIOLATION line printed), 2 harness error.
cd "$(dirname "$0")/sim" || exit 2
export CARGO_NET_OFFLINE=true
mkdir -p target
if ! cargo build --release --offline > target/build.log 2>&1; then
    tail -40 target/build.log
    echo "HARNESS-ERROR: simulator build failed (see sim/target/build.log)"
    exit 2
fi
case "$1" in
    setup)
        exec ./target/release/verif selftest
        ;;
    replay)
        exec ./target/release/verif replay "$2"
        ;;
    *)
        exec ./target/release/verif "$1" "${2:-${VERIF_TIER:-quick}}"
        ;;
esac
