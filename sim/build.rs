// The simulator compiles /repo/src/{config,control,stats,subscriptions}.rs into itself a second
// time (src/main.rs, `#[path]` modules) with the configuration atomics replaced by shuttle's.
// The cfg is set for this crate only, so the srtla_send dependency keeps std atomics.
fn main() {
    println!("cargo:rustc-cfg=verif_shuttle");
    println!("cargo:rustc-check-cfg=cfg(verif_shuttle)");
    println!("cargo:rerun-if-changed=build.rs");
    for f in ["config", "control", "stats", "subscriptions"] {
        println!("cargo:rerun-if-changed=/repo/src/{f}.rs");
    }
}
