//! Batch runner: seeded parallel execution, panic classification, known-finding
//! filtering, minimisation, replay files and evidence.

use std::cell::RefCell;
use std::collections::{BTreeMap, BTreeSet, HashSet};
use std::panic::{AssertUnwindSafe, catch_unwind};
use std::sync::Mutex;
use std::sync::atomic::{AtomicU64, Ordering};
use std::time::Instant;

use serde_json::{Value, json};

use crate::common::{Check, RunOutcome, Stats, Tier, Violation};
use crate::findings;
use crate::prng::run_seed;

thread_local! {
    static LAST_PANIC: RefCell<Option<(String, String)>> = const { RefCell::new(None) };
}

pub fn install_panic_hook() {
    let verbose = std::env::var("VERIF_VERBOSE").is_ok();
    std::panic::set_hook(Box::new(move |info| {
        let loc = info
            .location()
            .map(|l| format!("{}:{}", l.file(), l.line()))
            .unwrap_or_else(|| "<unknown>".to_string());
        let msg = if let Some(s) = info.payload().downcast_ref::<&str>() {
            (*s).to_string()
        } else if let Some(s) = info.payload().downcast_ref::<String>() {
            s.clone()
        } else {
            "<non-string panic>".to_string()
        };
        if verbose {
            eprintln!("panic at {loc}: {msg}");
        }
        LAST_PANIC.with(|p| *p.borrow_mut() = Some((loc, msg)));
    }));
}

pub enum RunError {
    Harness(String),
}

/// A panic whose location is inside the simulator is a harness error; anywhere
/// else (the repository, a dependency, std) it is a violation.
fn is_harness_location(loc: &str) -> bool {
    loc.starts_with("src/") && !loc.contains("/repo/")
        || loc.contains("/verif/")
        || loc.contains("verif-sim")
}

pub fn run_one(check: &dyn Check, plan: &Value, excerpt: bool) -> Result<RunOutcome, RunError> {
    LAST_PANIC.with(|p| *p.borrow_mut() = None);
    match catch_unwind(AssertUnwindSafe(|| check.execute(plan, excerpt))) {
        Ok(o) => Ok(o),
        Err(_) => {
            let (loc, msg) = LAST_PANIC
                .with(|p| p.borrow_mut().take())
                .unwrap_or_else(|| ("<unknown>".into(), "<unknown>".into()));
            if is_harness_location(&loc) {
                return Err(RunError::Harness(format!("panic in simulator at {loc}: {msg}")));
            }
            let mut o = RunOutcome::default();
            o.nontrivial = true;
            o.violations.push(Violation::new(
                &format!("{}.panic", check.id()),
                &loc,
                0,
                format!("panic at {loc}: {msg}"),
            ));
            Ok(o)
        }
    }
}

struct Summary {
    index: u64,
    outcome: RunOutcome,
}

fn env_u64(name: &str) -> Option<u64> {
    std::env::var(name).ok().and_then(|v| v.parse().ok())
}

pub fn default_seed() -> u64 {
    env_u64("VERIF_SEED").unwrap_or(1)
}

fn first_new_violation<'a>(prop: &str, o: &'a RunOutcome) -> Option<&'a Violation> {
    o.violations
        .iter()
        .find(|v| findings::known_for(prop, v).is_none())
}

/// Run a batch and return the process exit code.
pub fn run_batch(check: &dyn Check, tier: Tier, seed: u64) -> i32 {
    let started = Instant::now();
    let prop = check.id();
    let n = env_u64("VERIF_RUNS").unwrap_or_else(|| check.runs(tier));
    let max_s = env_u64("VERIF_MAX_S").unwrap_or(match tier {
        Tier::Quick => 150,
        Tier::Thorough => 3000,
    });
    let workers = env_u64("VERIF_WORKERS")
        .unwrap_or_else(|| {
            std::thread::available_parallelism()
                .map(|n| n.get() as u64)
                .unwrap_or(4)
                .min(16)
        })
        .max(1);
    println!(
        "SEED {seed} property={prop} tier={} runs={n} workers={workers} engine={}",
        tier.as_str(),
        check.engine()
    );

    let next = AtomicU64::new(0);
    let stop_after = AtomicU64::new(u64::MAX);
    let results: Mutex<Vec<Summary>> = Mutex::new(Vec::new());
    let harness_err: Mutex<Option<String>> = Mutex::new(None);
    let timed_out = AtomicU64::new(0);

    std::thread::scope(|s| {
        for _ in 0..workers {
            s.spawn(|| {
                loop {
                    let i = next.fetch_add(1, Ordering::SeqCst);
                    if i >= n || i > stop_after.load(Ordering::SeqCst) {
                        break;
                    }
                    if started.elapsed().as_secs() >= max_s {
                        timed_out.store(1, Ordering::SeqCst);
                        break;
                    }
                    if harness_err.lock().unwrap().is_some() {
                        break;
                    }
                    let rs = run_seed(seed, prop, i);
                    let plan = check.generate(rs, i, tier);
                    match run_one(check, &plan, false) {
                        Ok(outcome) => {
                            if first_new_violation(prop, &outcome).is_some() {
                                stop_after.fetch_min(i, Ordering::SeqCst);
                            }
                            results.lock().unwrap().push(Summary { index: i, outcome });
                        }
                        Err(RunError::Harness(m)) => {
                            *harness_err.lock().unwrap() = Some(format!("run {i}: {m}"));
                            break;
                        }
                    }
                }
            });
        }
    });

    if let Some(m) = harness_err.into_inner().unwrap() {
        eprintln!("HARNESS-ERROR: {m}");
        return 2;
    }

    let mut results = results.into_inner().unwrap();
    results.sort_by_key(|s| s.index);
    // With early stop, indices above the first violating one may or may not have
    // run; drop them so the fold is identical at any worker count.
    let cut = stop_after.load(Ordering::SeqCst);
    results.retain(|s| s.index <= cut);

    // Determinism spot check: re-execute the first few runs and compare hashes.
    let recheck = results.iter().take(3).map(|s| s.index).collect::<Vec<_>>();
    let mut excerpt: Vec<String> = Vec::new();
    for (k, i) in recheck.iter().enumerate() {
        let rs = run_seed(seed, prop, *i);
        let plan = check.generate(rs, *i, tier);
        match run_one(check, &plan, k == 0) {
            Ok(o) => {
                let first = &results.iter().find(|s| s.index == *i).unwrap().outcome;
                if o.log_hash != first.log_hash {
                    eprintln!(
                        "HARNESS-ERROR: nondeterminism: run {i} hashed {:016x} then {:016x}",
                        first.log_hash, o.log_hash
                    );
                    return 2;
                }
                if k == 0 {
                    excerpt = o.excerpt;
                }
            }
            Err(RunError::Harness(m)) => {
                eprintln!("HARNESS-ERROR: {m}");
                return 2;
            }
        }
    }

    // Fold.
    let mut stats = Stats::default();
    let mut hashes: HashSet<u64> = HashSet::new();
    let mut states: HashSet<u64> = HashSet::new();
    let mut transitions: HashSet<u64> = HashSet::new();
    let mut inconclusive = 0u64;
    let mut nontrivial_runs = 0u64;
    let mut sim_time_ms = 0u64;
    let mut known_hits: BTreeMap<String, (u64, String)> = BTreeMap::new();
    let mut new_violation: Option<(u64, Violation)> = None;
    for s in &results {
        let o = &s.outcome;
        stats.merge(&o.stats);
        if o.nontrivial {
            nontrivial_runs += 1;
            hashes.insert(o.log_hash);
        }
        if o.inconclusive {
            inconclusive += 1;
        }
        sim_time_ms += o.sim_time_ms;
        states.extend(o.states.iter().copied());
        transitions.extend(o.transitions.iter().copied());
        for v in &o.violations {
            if let Some(f) = findings::known_for(prop, v) {
                let e = known_hits
                    .entry(f.signature.clone())
                    .or_insert((0, f.what.clone()));
                e.0 += 1;
            } else if new_violation.is_none() {
                new_violation = Some((s.index, v.clone()));
            }
        }
    }
    let evaluations = results.len() as u64;

    for (sig, (count, what)) in &known_hits {
        println!("KNOWN-FINDING: property={prop} {what} [signature {sig}, {count} occurrence(s) in this batch]");
    }

    // Samples: the first plans of the batch.
    let mut samples: Vec<Value> = Vec::new();
    for s in results.iter().take(2) {
        let rs = run_seed(seed, prop, s.index);
        let plan = check.generate(rs, s.index, tier);
        samples.push(json!({"run_index": s.index, "run_seed": rs, "plan": check.sample_view(&plan),
            "log_hash": format!("{:016x}", s.outcome.log_hash)}));
    }
    if !excerpt.is_empty() {
        samples.push(json!({"event_log_excerpt_of_run": recheck[0], "lines": excerpt}));
    }

    let mut exit = 0;
    let mut violation_json = Value::Null;
    if let Some((index, v)) = &new_violation {
        let rs = run_seed(seed, prop, *index);
        let plan = check.generate(rs, *index, tier);
        let (min_plan, min_v, minimised, tried) = minimise(check, &plan, v, 25);
        let path = write_replay(check, seed, *index, rs, &min_plan, &min_v, minimised);
        // Replay the written file in a fresh process; fall back to the
        // unminimised plan if the minimised one does not reproduce there.
        let mut final_path = path.clone();
        let mut fresh_ok = replay_in_fresh_process(&path, &min_v.monitor);
        if !fresh_ok && minimised {
            let p2 = write_replay(check, seed, *index, rs, &plan, v, false);
            fresh_ok = replay_in_fresh_process(&p2, &v.monitor);
            final_path = p2;
        }
        println!(
            "violation: run_index={index} run_seed={rs} monitor={} label={} step={} : {}",
            min_v.monitor, min_v.label, min_v.step, min_v.message
        );
        println!("minimisation: {} candidate executions, minimised={minimised}, fresh-process replay reproduces={fresh_ok}", tried);
        println!("VIOLATION property={prop} replay={final_path}");
        violation_json = json!({"run_index": index, "run_seed": rs, "monitor": min_v.monitor, "label": min_v.label,
            "step": min_v.step, "message": min_v.message, "replay": final_path, "replay_reproduces_in_fresh_process": fresh_ok});
        exit = 1;
    }

    let wall = started.elapsed().as_secs_f64();
    let zero_probes: Vec<&str> = check
        .expected_probes()
        .into_iter()
        .filter(|p| stats.get(p) == 0)
        .collect();
    for p in &zero_probes {
        println!("NOTE: probe '{p}' stayed at zero in this batch");
    }
    let distinct = hashes.len() as u64;
    let per_hour = if wall > 0.0 {
        (evaluations as f64 / wall * 3600.0) as u64
    } else {
        0
    };
    let known_list: Vec<Value> = known_hits
        .iter()
        .map(|(sig, (c, what))| json!({"signature": sig, "occurrences": c, "what": what}))
        .collect();
    let ev = json!({
        "property_id": prop,
        "tier": tier.as_str(),
        "seed": seed,
        "level": check.level(),
        "coverage": {
            "evaluations": evaluations,
            "distinct_nontrivial": distinct,
            "rule": check.rule(),
            "samples": samples,
            "states": states.len(),
            "transitions": transitions.len(),
            "nontrivial_runs": nontrivial_runs,
            "inconclusive_runs": inconclusive,
            "planned_runs": n,
            "stopped_by_wall_clock_cap": timed_out.load(Ordering::SeqCst) == 1,
            "runs_per_hour": per_hour,
            "seeds_per_hour": per_hour,
            "simulated_time_ms": sim_time_ms,
            "workers": workers,
            "engine": check.engine(),
            "counters": stats.counters,
            "probes_at_zero": zero_probes,
            "known_findings_seen": known_list,
            "real_components": check.real_components(),
            "stub_components": check.stub_components(),
            "violation": violation_json,
            "determinism_spot_check": format!("{} runs re-executed, hashes equal", recheck.len()),
        },
        "assumptions": check.assumptions(),
        "wall_s": wall,
        "violations": if exit == 1 { 1 } else { 0 },
    });
    let dir = std::env::var("VERIF_EVIDENCE_DIR").unwrap_or_else(|_| "/verif/evidence".to_string());
    let _ = std::fs::create_dir_all(&dir);
    let path = format!("{dir}/{prop}.json");
    if let Err(e) = std::fs::write(&path, serde_json::to_string_pretty(&ev).unwrap() + "\n") {
        eprintln!("HARNESS-ERROR: cannot write {path}: {e}");
        return 2;
    }
    println!(
        "{} property={prop} runs={evaluations} distinct_nontrivial={distinct} states={} known_findings={} wall={wall:.1}s",
        if exit == 0 { "OK" } else { "FAIL" },
        states.len(),
        known_hits.len()
    );
    if exit == 0 && (evaluations == 0 || distinct < 2) {
        eprintln!("HARNESS-ERROR: batch too small to be evidence (evaluations={evaluations}, distinct={distinct})");
        return 2;
    }
    exit
}

/// Greedy minimisation: keep a candidate if the same monitor fires.
fn minimise(
    check: &dyn Check,
    plan: &Value,
    v: &Violation,
    budget_s: u64,
) -> (Value, Violation, bool, u64) {
    let started = Instant::now();
    let prop = check.id();
    let mut cur = plan.clone();
    let mut cur_v = v.clone();
    let mut changed = false;
    let mut tried = 0u64;
    let mut seen: BTreeSet<String> = BTreeSet::new();
    'outer: loop {
        let cands = check.shrink(&cur);
        for c in cands {
            if started.elapsed().as_secs() >= budget_s || tried >= 800 {
                break 'outer;
            }
            let key = c.to_string();
            if !seen.insert(key) {
                continue;
            }
            tried += 1;
            if let Ok(o) = run_one(check, &c, false) {
                if let Some(nv) = o
                    .violations
                    .iter()
                    .find(|x| x.monitor == v.monitor && x.label == v.label && findings::known_for(prop, x).is_none())
                {
                    cur = c;
                    cur_v = nv.clone();
                    changed = true;
                    continue 'outer;
                }
            }
        }
        break;
    }
    (cur, cur_v, changed, tried)
}

fn write_replay(
    check: &dyn Check,
    seed: u64,
    index: u64,
    rs: u64,
    plan: &Value,
    v: &Violation,
    minimised: bool,
) -> String {
    let dir = std::env::var("VERIF_REPLAY_DIR").unwrap_or_else(|_| "/verif/replays".to_string());
    let _ = std::fs::create_dir_all(&dir);
    let log_hash = match run_one(check, plan, false) {
        Ok(o) => format!("{:016x}", o.log_hash),
        Err(_) => "harness-error".to_string(),
    };
    let path = format!(
        "{dir}/{}-seed{seed}-run{index}{}.json",
        check.id(),
        if minimised { "-min" } else { "" }
    );
    let body = json!({
        "engine": check.engine(),
        "property": check.id(),
        "batch_seed": seed,
        "run_index": index,
        "run_seed": rs,
        "plan": plan,
        "violation": v,
        "log_hash": log_hash,
        "minimised": minimised,
    });
    let _ = std::fs::write(&path, serde_json::to_string_pretty(&body).unwrap() + "\n");
    path
}

fn replay_in_fresh_process(path: &str, monitor: &str) -> bool {
    let exe = match std::env::current_exe() {
        Ok(e) => e,
        Err(_) => return false,
    };
    match std::process::Command::new(exe)
        .arg("replay")
        .arg(path)
        .output()
    {
        Ok(out) => {
            let text = String::from_utf8_lossy(&out.stdout);
            out.status.code() == Some(1) && text.contains(&format!("monitor={monitor}"))
        }
        Err(_) => false,
    }
}

/// `verif replay <file>`: re-execute the plan; exit 1 and print the VIOLATION
/// line if the recorded monitor fires again with the recorded log hash.
pub fn replay(checks: &[Box<dyn Check>], path: &str) -> i32 {
    let text = match std::fs::read_to_string(path) {
        Ok(t) => t,
        Err(e) => {
            eprintln!("HARNESS-ERROR: cannot read {path}: {e}");
            return 2;
        }
    };
    let body: Value = match serde_json::from_str(&text) {
        Ok(v) => v,
        Err(e) => {
            eprintln!("HARNESS-ERROR: cannot parse {path}: {e}");
            return 2;
        }
    };
    let prop = body["property"].as_str().unwrap_or("");
    let Some(check) = checks.iter().find(|c| c.id() == prop) else {
        eprintln!("HARNESS-ERROR: unknown property '{prop}' in {path}");
        return 2;
    };
    let recorded: Option<Violation> = serde_json::from_value(body["violation"].clone()).ok();
    // SAFETY: single-threaded at this point.
    unsafe { std::env::set_var("VERIF_EXCERPT_ALL", "1") };
    match run_one(check.as_ref(), &body["plan"], true) {
        Ok(o) => {
            println!("replay property={prop} log_hash={:016x} recorded_log_hash={}", o.log_hash, body["log_hash"].as_str().unwrap_or("?"));
            // Show the event log around the recorded step (or its tail).
            let around = recorded.as_ref().map(|r| r.step).unwrap_or(0);
            let pos = o
                .excerpt
                .iter()
                .position(|l| l.starts_with(&format!("#{around} ")));
            match pos {
                _ if std::env::var("VERIF_REPLAY_FULL").is_ok() => {
                    for l in o.excerpt.iter() {
                        println!("  | {l}");
                    }
                }
                Some(p) => {
                    for l in o.excerpt.iter().skip(p.saturating_sub(30)).take(34) {
                        println!("  | {l}");
                    }
                }
                None => {
                    for l in o.excerpt.iter().rev().take(25).rev() {
                        println!("  | {l}");
                    }
                }
            }
            let hit = o.violations.iter().find(|v| match &recorded {
                Some(r) => v.monitor == r.monitor && v.label == r.label,
                None => true,
            });
            match hit {
                Some(v) => {
                    println!(
                        "reproduced: monitor={} label={} step={} : {}",
                        v.monitor, v.label, v.step, v.message
                    );
                    println!("VIOLATION property={prop} replay={path}");
                    1
                }
                None => {
                    println!("not reproduced: {} violation(s) of other kinds", o.violations.len());
                    for v in &o.violations {
                        println!("  other: monitor={} label={} : {}", v.monitor, v.label, v.message);
                    }
                    0
                }
            }
        }
        Err(RunError::Harness(m)) => {
            eprintln!("HARNESS-ERROR: {m}");
            2
        }
    }
}
