#!/usr/bin/env python3
"""Rewrite DESIGN.md §A.6 from /verif/seeded/*/meta.json."""
import json, glob, re, os
rows = []
for f in sorted(glob.glob('/verif/seeded/*/meta.json')):
    m = json.load(open(f))
    name = m['name']
    notes = m.get('needs_to_manifest', '')
    # first heading / first line as the short description
    first = next((l.strip('# ').strip() for l in notes.splitlines() if l.strip()), '')
    first = re.sub(r'^m\d\s*[-–—:]\s*', '', first)[:150]
    c = m.get('confirmed', {})
    ok = c.get('builds_with_warnings_as_errors') and c.get('existing_suite', {}).get('failed') == 0 and c.get('demo_fails_with_change') and c.get('demo_passes_without_change')
    caught = ', '.join(m.get('caught_by', [])) or 'MISSED'
    viol = ''
    for p, r in m.get('checks', {}).items():
        if r.get('violation'):
            v = r['violation']
            mm = re.search(r'monitor=(\S+)(?: label=(\S*))?', v)
            viol = (mm.group(1) + (':' + mm.group(2) if mm and mm.group(2) else '')) if mm else v[:60]
            break
    extra = m.get('strengthened', '')
    rows.append(f"| `{name}` | {m['property']} | {first} | {'yes' if ok else 'NO'} | {caught} | `{viol}` | {extra} |")
table = "| seeded change | property | what it is (sub-agent's words, abridged) | confirmed (builds, 424 pass, demo fails / passes) | caught by | monitor that fires | machinery change it prompted |\n|---|---|---|---|---|---|---|\n" + "\n".join(rows)
s = open('/verif/DESIGN.md').read()
start = s.index('### A.6 Seeded changes from sub-agents')
end = s.index('---------------------------------------------------------------------------------------------------', start)
intro = '''### A.6 Seeded changes from sub-agents

Each sub-agent was given only the text of one property and its own scratch worktree (nothing from
`/verif`) and asked for two changes that break the property, still compile under `-D warnings`, still
pass the 424 tests, and need something specific to manifest, with a demonstration. Each was confirmed
here in a fresh scratch worktree (`tools/seeded.py`), then applied to `/repo`, the property's quick
check run, and undone (`tools/try_patch.py`). Kept under `/verif/seeded/<name>/` (`patch.diff`, `demo/`,
`meta.json`). %d changes, %d caught by the quick tier as it stands now. The last column says what
had to be strengthened for changes the checks missed at first. Four rounds were run (m1/m2, m3/m4,
m5/m6, m7/m8 per property; later rounds were told the titles of the earlier changes and asked for harder
ones, in particular for interactions between the event-loop glue and the core): the quick tier
missed 8 of 40 in round 1, 14 of 41 in round 2, 15 of 41 in round 3 and 21 of 39 in round 4 before it was
strengthened; four round-4 changes are still not caught and are kept as such (`C10-m8`, `C12-m7`,
`C19-m8`, `C20-m8`: their `meta.json` and the last column say why - process start-up wiring, a
one-event-stale snapshot in the real loop's packet arm, wall-clock slowness inside a synchronous call,
tokio's multi-threaded scheduler) -
new engines (W for eight more properties, S, X, R), new fault kinds (lost REG2 replies, client re-bind,
bind failures and a stalled subscriber on the real loop, a stalled reader with large events on the
control socket, deep bursts), and monitors made independent of implementation state they had been
reading back (established flag, probe flag, packet log, hysteresis anchor, attempt stamp). The
rounds also led to two of the findings of §A.3 (the control socket's `read_line`, the handshake-slot
starvation). Changes that break a neighbouring property by the letter rather than the one they were
written for are filed under the property they break (`C05-m5`, `C05-m8`) or keep their name and say which neighbouring
check catches them (`C04-m8`, `C06-m8`, `C15-m7`); one change was dropped
because a `fix:` commit rewrote its site (§A.5).

''' % (len(rows), sum(1 for r in rows if '| MISSED |' not in r))
s = s[:start] + intro + table + "\n\n" + s[end:]
open('/verif/DESIGN.md', 'w').write(s)
print(len(rows), "rows")
