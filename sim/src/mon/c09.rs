//! C09 — return path relays receiver traffic to the SRT client unmodified.

use std::collections::HashMap;

use super::refcodec as rc;
use super::setmodel::{SetEv, SetModel};
use super::{T_KEEPALIVE, T_REG_ERR, T_REG_NGP, T_REG2, T_REG3, T_SRT_ACK, T_SRTLA_ACK, Truth, ptype};
use crate::lsim::{MonOut, Monitor, StepCtx, abstract_state, find_view};

const M: &str = "C09";

#[derive(Default)]
pub struct C09 {
    truth: Truth,
    model: SetModel,
    /// Where the SRT endpoint is, by the monitor's own observation.
    client: Option<std::net::SocketAddr>,
    /// The monitor's own "a keepalive is outstanding" per link: one was handed to the socket since
    /// the link's last reset and no echo has come back since (the implementation's flag implies it).
    own_outstanding: HashMap<u64, bool>,
}

impl C09 {
    pub fn new() -> Self {
        Self::default()
    }
}

fn internal(t: u16) -> bool {
    matches!(t, T_REG2 | T_REG3 | T_REG_ERR | T_REG_NGP | T_SRTLA_ACK | T_KEEPALIVE)
}

impl Monitor for C09 {
    fn on_step(&mut self, ctx: &StepCtx<'_>, out: &mut MonOut) {
        self.truth.update(ctx);
        let world = ctx.world;
        let real_holds = |conn: u64, seq: i32| -> bool {
            world
                .conns
                .iter()
                .find(|c| c.conn_id == conn)
                .is_some_and(|c| c.packet_log.contains_key(&seq))
        };
        let torn = self.truth.torn_down_now.clone();
        // what every link held when the step began (the model is resynchronised after each step)
        let held_pre: std::collections::HashMap<u64, std::collections::BTreeSet<i32>> =
            self.model.sets.iter().map(|(k, v)| (*k, v.clone())).collect();
        let evs = self.model.apply_step(ctx, &torn, &self.truth.removed_now.clone(), &real_holds);
        for c in world.conns.iter() {
            let real: std::collections::BTreeSet<i32> = c.packet_log.keys().copied().collect();
            self.model.sets.insert(c.conn_id, real);
        }

        // "that client" is the monitor's own notion: the source of the last non-empty datagram the
        // listener handed over (a client step handles its datagram before it drains the uplinks)
        if let crate::lsim::StepKind::Client(Some(b)) = ctx.kind
            && !b.is_empty()
        {
            if self.client.is_some_and(|c| c != ctx.client_src) {
                out.probe("c09.client_address_changed");
            }
            self.client = Some(ctx.client_src);
        }
        let addr_known = self.client.is_some();
        for co in ctx.client_out {
            if Some(co.target) != self.client {
                out.violate(
                    &format!("{M}.relay"),
                    "wrong_client",
                    ctx.idx,
                    format!("a {}-byte datagram (type {:x?}) was sent to {} via {}, the SRT endpoint is at {:?}", co.bytes.len(), ptype(&co.bytes), co.target, co.via, self.client),
                );
            }
        }
        // ---- relay ledger ----
        let processed: Vec<&(u64, Vec<u8>)> = ctx
            .uplink
            .iter()
            .filter(|(c, _)| ctx.post.iter().any(|v| v.conn_id == *c) || ctx.mid.iter().any(|v| v.conn_id == *c))
            .collect();
        let mut must: Vec<&Vec<u8>> = Vec::new();
        if ctx.uplink.len() >= 64 {
            out.probe("c09.drain_budget_exhausted");
        }
        for (_, b) in &processed {
            out.stats.inc("c09.uplink_datagrams");
            match ptype(b) {
                None => out.probe("c09.runt_datagram"),
                Some(t) if internal(t) => out.probe("c09.internal_datagram"),
                Some(t) => {
                    if addr_known {
                        must.push(b);
                        out.probe("c09.relayable_datagram");
                        if t != T_SRT_ACK && t & 0xFF00 != 0x8000 {
                            out.probe("c09.unknown_type_relayed");
                        }
                    } else {
                        out.probe("c09.no_client_yet");
                    }
                }
            }
        }
        // everything the client socket saw must be one of the relayable datagrams
        for co in ctx.client_out {
            let ok = must.iter().any(|m| **m == co.bytes);
            if !ok {
                let label = match ptype(&co.bytes) {
                    Some(t) if internal(t) => "internal_leaked",
                    _ if !addr_known => "before_client_known",
                    _ => "not_injected_or_modified",
                };
                out.violate(
                    &format!("{M}.relay"),
                    label,
                    ctx.idx,
                    format!("client socket was handed a {}-byte datagram (type {:x?}) via {} that matches no relayable uplink datagram of this step", co.bytes.len(), ptype(&co.bytes), co.via),
                );
            }
        }
        for m in &must {
            let attempts: Vec<_> = ctx.client_out.iter().filter(|c| c.bytes == **m).collect();
            let delivered = attempts.iter().any(|c| c.result.is_ok());
            // Excused only if the last-resort path (the awaited send of the relay list, or the
            // instant-forward task) was attempted and hit an injected hard error; a failure of the
            // inline fast path alone does not excuse anything, the relay list still has to deliver.
            let hard_fault = attempts
                .iter()
                .any(|c| c.via != "try_send_to" && matches!(c.result, Err(k) if k != std::io::ErrorKind::WouldBlock));
            if attempts.iter().any(|c| c.via == "try_send_to" && matches!(c.result, Err(k) if k != std::io::ErrorKind::WouldBlock)) {
                out.probe("c09.fast_path_hard_error");
            }
            if !delivered {
                if hard_fault {
                    out.probe("c09.excused_by_client_socket_error");
                } else {
                    out.violate(
                        &format!("{M}.relay"),
                        "not_delivered",
                        ctx.idx,
                        format!("{}-byte uplink datagram of type {:x?} never reached the client byte-identical ({} attempt(s))", m.len(), ptype(m), attempts.len()),
                    );
                }
            }
            if attempts.iter().any(|c| c.via == "instant") {
                out.probe("c09.instant_forward_path");
            }
        }

        // ---- the monitor's own outstanding-keepalive record ----
        let reset_between = |a: &[crate::lsim::LinkView], b: &[crate::lsim::LinkView]| -> Vec<u64> {
            a.iter()
                .filter_map(|va| {
                    let vb = b.iter().find(|x| x.conn_id == va.conn_id)?;
                    let reg_err = ctx.uplink.iter().any(|(c, d)| *c == va.conn_id && ptype(d) == Some(T_REG_ERR));
                    let fell = va.connected && !vb.connected && !reg_err;
                    (va.fd != vb.fd || va.last_attempt_ms != vb.last_attempt_ms || fell).then_some(va.conn_id)
                })
                .collect()
        };
        for c in reset_between(ctx.pre, ctx.mid) {
            self.own_outstanding.insert(c, false);
        }
        for w in &ctx.wire[..ctx.wire_mid] {
            if w.call == srtla_send::net::verif_hooks::UplinkCall::Send
                && ptype(&w.offered[0]) == Some(T_KEEPALIVE)
                && let Some(v) = ctx.pre.iter().find(|v| v.fd == Some(w.fd))
                && find_view(ctx.mid, v.conn_id).is_some_and(|m| m.connected && m.fd == v.fd)
            {
                self.own_outstanding.insert(v.conn_id, true);
            }
        }
        let own_mid: HashMap<u64, bool> = self.own_outstanding.clone();
        // echoes consume the record; resets in the trailing part clear it
        for (c, b) in &processed {
            if ptype(b) == Some(T_KEEPALIVE) {
                self.own_outstanding.insert(*c, false);
            }
        }
        for c in reset_between(ctx.mid, ctx.post) {
            self.own_outstanding.insert(c, false);
        }
        // ---- liveness stamp differential ----
        for pre in ctx.pre {
            let Some(post) = find_view(ctx.post, pre.conn_id) else {
                continue;
            };
            let mut expect = pre.last_received;
            if torn.contains(&pre.conn_id) {
                expect = None;
            }
            let mut touched = false;
            for (c, b) in &processed {
                if *c != pre.conn_id {
                    continue;
                }
                touched = true;
                match ptype(b) {
                    None => {}
                    Some(T_REG3) => expect = Some(ctx.now),
                    Some(T_REG_ERR) => expect = None,
                    Some(T_REG2) | Some(T_REG_NGP) => {}
                    Some(_) => expect = Some(ctx.now),
                }
            }
            if (touched || torn.contains(&pre.conn_id)) && post.last_received != expect {
                out.violate(
                    &format!("{M}.liveness_stamp"),
                    "",
                    ctx.idx,
                    format!("link {:x}: last-heard stamp {:?}, expected {:?}", pre.conn_id, post.last_received, expect),
                );
            }
            // ---- delivery proof: only an earned SRTLA ACK or an answered keepalive ----
            if post.proof_ms != pre.proof_ms {
                // With one datagram per step the set model says exactly who earned the ACK. With several
                // datagrams in one step (NAK and ACK lists naming the same numbers) the model's
                // observation-based choices can be confounded, so the rule is relaxed to: some SRTLA
                // ACK of this step names a number the link held when the step began (or sent in it).
                let strict = evs.iter().any(|e| matches!(e, SetEv::SrtlaAck { retired_on: Some(r), .. } if *r == pre.conn_id));
                let earned = if processed.len() <= 1 {
                    strict
                } else {
                    strict
                        || processed.iter().any(|(_, b)| {
                            ptype(b) == Some(T_SRTLA_ACK)
                                && super::setmodel::ref_parse_srtla_ack(b).iter().any(|s| {
                                    held_pre.get(&pre.conn_id).is_some_and(|h| h.contains(&(*s as i32)))
                                        || evs.iter().any(|e| matches!(e, SetEv::Sent { conn, seqs } if *conn == pre.conn_id && seqs.contains(&(*s as i32))))
                                })
                        })
                };
                // a keepalive sent by this very housekeeping pass arms the probe before the trailing drain
                let mut waiting = if matches!(ctx.kind, crate::lsim::StepKind::Uplink) {
                    pre.waiting_ka
                } else {
                    find_view(ctx.mid, pre.conn_id).map(|m| m.waiting_ka).unwrap_or(pre.waiting_ka)
                };
                // an "answered keepalive" needs a keepalive that was really sent on this link since
                // its last reset (monitor's own record as of the main action of this step)
                if !own_mid.get(&pre.conn_id).copied().unwrap_or(false) {
                    waiting = false;
                }
                let mut answered = false;
                for (c, b) in &processed {
                    if *c != pre.conn_id || ptype(b) != Some(T_KEEPALIVE) {
                        continue;
                    }
                    if waiting {
                        if let Some(ts) = rc::keepalive_ts(b) {
                            let rtt = ctx.now.saturating_sub(ts);
                            if rtt > 0 && rtt <= 10_000 {
                                answered = true;
                            }
                        }
                        waiting = false;
                    }
                }
                let reset = torn.contains(&pre.conn_id) && post.proof_ms == 0;
                if earned {
                    out.probe("c09.proof_by_earned_ack");
                }
                if answered {
                    out.probe("c09.proof_by_keepalive");
                }
                if !(reset || ((earned || answered) && post.proof_ms == ctx.now)) {
                    out.violate(
                        &format!("{M}.delivery_proof"),
                        "",
                        ctx.idx,
                        format!(
                            "link {:x}: delivery-proof stamp moved {} -> {} without an earned SRTLA ACK or an answered keepalive in this step (uplink datagrams: {:?})",
                            pre.conn_id, pre.proof_ms, post.proof_ms,
                            processed.iter().map(|(c, b)| format!("{:x}:{:x?}/{}B:{}", c & 0xffff, ptype(b), b.len(), crate::lsim::plan::hex(&b[..b.len().min(24)]))).collect::<Vec<_>>()
                        ),
                    );
                }
            }
        }
        let _ = HashMap::<u8, u8>::new();
        if ctx.idx % 16 == 0 {
            out.states.push(abstract_state(ctx.post, ctx.now, &ctx.world.reg));
        }
    }
}
