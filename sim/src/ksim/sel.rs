//! Selection-world monitors on engine K: C03 (no blackout), C11 (score oracle),
//! C12 (guard is a routing penalty only), C13 (stall latch temporal contract).

use srtla_core::connection::{LinkPhase, SrtlaConnection};
use srtla_core::selection::select_connection_idx;

use super::{KCtx, KEv, KMonitor, KWorld, SelectObs};
use crate::lsim::MonOut;

// ---------------------------------------------------------------- shared link model

#[derive(Clone, Debug, Default)]
pub struct OwnLink {
    pub registered: bool,
    pub connected: bool,
    pub heard_at: Option<u64>,
    pub proof_at: Option<u64>,
    pub reset_since_select: bool,
}

#[derive(Default)]
pub struct OwnModel {
    pub links: Vec<OwnLink>,
}

impl OwnModel {
    pub fn start(&mut self, w: &KWorld) {
        self.links = vec![OwnLink::default(); w.conns.len()];
    }
    /// Update from the event (not from the implementation's state).
    pub fn observe(&mut self, ctx: &KCtx<'_>) {
        let n = self.links.len();
        let now = ctx.now;
        match ctx.ev {
            KEv::Reg3 { link } => {
                let l = &mut self.links[*link % n];
                l.registered = true;
                l.connected = true;
                l.heard_at = Some(now);
            }
            KEv::RegErr { link } => {
                let l = &mut self.links[*link % n];
                l.registered = false;
                l.connected = false;
                l.heard_at = None;
            }
            KEv::MarkForRecovery { link } | KEv::Reconnect { link } => {
                let l = &mut self.links[*link % n];
                *l = OwnLink { reset_since_select: true, ..Default::default() };
            }
            KEv::Inbound { link } => self.links[*link % n].heard_at = Some(now),
            KEv::SrtlaAck { link, .. } => {
                let i = *link % n;
                self.links[i].heard_at = Some(now);
                if ctx.eff.acked.iter().any(|(l, _, found)| *l == i && *found) {
                    self.links[i].proof_at = Some(now);
                }
            }
            KEv::KeepaliveEcho { link, .. } => {
                let i = *link % n;
                self.links[i].heard_at = Some(now);
                if ctx.eff.echo_sampled == Some(true) {
                    self.links[i].proof_at = Some(now);
                }
            }
            _ => {}
        }
    }
    pub fn usable(&self, i: usize, now: u64, timeout: u64) -> bool {
        let l = &self.links[i];
        l.registered && l.connected && l.heard_at.is_some_and(|h| now.saturating_sub(h) < timeout)
    }
}

// ---------------------------------------------------------------- C03

#[derive(Default)]
pub struct C03 {
    own: OwnModel,
}

impl KMonitor for C03 {
    fn on_start(&mut self, w: &KWorld) {
        self.own.start(w);
    }
    fn on_event(&mut self, ctx: &KCtx<'_>, out: &mut MonOut) {
        for s in &ctx.eff.selects {
            let n = s.pre.len();
            let usable: Vec<usize> = (0..n).filter(|i| self.own.usable(*i, s.now, s.cfg.conn_timeout_ms)).collect();
            out.stats.inc("c03.decisions");
            if !usable.is_empty() {
                out.nontrivial = true;
                let gates = s
                    .post
                    .iter()
                    .filter(|c| {
                        let p = c.verif_private();
                        p.stall_gated || c.weak || c.loss_degraded || c.cc_target_bps > 0
                    })
                    .count();
                if gates > 0 {
                    out.stats.inc("c03.decisions_with_gates_engaged");
                }
                if gates >= n && n > 0 {
                    out.stats.inc("c03.every_link_under_some_gate");
                }
                if usable.len() == 1 {
                    out.stats.inc("c03.single_usable_link");
                }
                if usable.iter().all(|i| s.pre[*i].get_score() == 0) {
                    out.stats.inc("c03.all_usable_links_score_zero");
                }
            }
            match s.result {
                None if !usable.is_empty() => {
                    let desc: Vec<String> = s
                        .post
                        .iter()
                        .map(|c| {
                            let p = c.verif_private();
                            format!(
                                "[conn={} phase={:?} if={} w={} gated={} latched={} pulled={} weak={} lossdeg={} tgt={}]",
                                c.connected,
                                c.phase,
                                c.in_flight_packets,
                                c.window,
                                p.stall_gated,
                                p.stall_latched_since_ms != 0,
                                p.silence_pulled,
                                c.weak,
                                c.loss_degraded,
                                c.cc_target_bps
                            )
                        })
                        .collect();
                    out.violate(
                        "C03.blackout",
                        if s.cfg.mode.is_classic() { "classic" } else { "enhanced" },
                        ctx.idx,
                        format!("usable uplinks {usable:?} but the scheduler returned none (last {:?}): {}", s.last, desc.join(" ")),
                    );
                }
                Some(i) if i >= n => {
                    out.violate("C03.index", "", ctx.idx, format!("scheduler returned index {i} of {n}"));
                }
                _ => {}
            }
        }
        self.own.observe(ctx);
    }
}

// ---------------------------------------------------------------- C12

pub fn accounting_projection(c: &SrtlaConnection) -> String {
    let mut log: Vec<(i32, u64)> = c.packet_log.iter().map(|(k, v)| (*k, *v)).collect();
    log.sort_unstable();
    format!(
        "{} {:?} {:?} {:?} {} {} {:?} {:?} {:?} {:?} {:?} {} {:?} {}",
        c.connected,
        c.last_received,
        c.last_sent,
        c.last_keepalive_sent,
        c.window,
        c.in_flight_packets,
        log,
        c.congestion,
        c.phase,
        c.reconnection,
        c.rtt,
        c.batch_sender.queued_count(),
        c.bitrate,
        c.highest_acked_seq
    )
}

/// The timed-out / schedulable verdicts of a link must be the same with and without its
/// guard-private state (latch, pull, gate, proof stamp).
pub fn liveness_depends_on_guard(c: &SrtlaConnection, now: u64) -> Option<String> {
    let mut clean = c.clone();
    clean.verif_clear_stall_history();
    let (t0, t1) = (clean.is_timed_out(now), c.is_timed_out(now));
    let (s0, s1) = (clean.is_schedulable(), c.is_schedulable());
    (t0 != t1 || s0 != s1).then(|| {
        format!(
            "timed-out verdict {t1} / schedulable {s1} with its stall state {:?}, {t0} / {s0} without (silent {:?} ms, timeout {} ms)",
            c.verif_private(),
            c.last_received.map(|t| now.saturating_sub(t)),
            c.verif_private().conn_timeout_ms
        )
    })
}

#[derive(Default)]
pub struct C12;

impl KMonitor for C12 {
    fn on_event(&mut self, ctx: &KCtx<'_>, out: &mut MonOut) {
        for s in &ctx.eff.selects {
            out.stats.inc("c12.decisions");
            for (i, (a, b)) in s.pre.iter().zip(s.post.iter()).enumerate() {
                // the liveness verdict derived from that state is part of it: a decision (a latch
                // it engages) must not make a link time out, or revive it
                // (judged on the post-decision link against itself with the guard-private state
                // erased, so that the timeout value the decision refreshes is the same on both sides)
                if let Some(msg) = liveness_depends_on_guard(b, s.now) {
                    out.violate("C12.state_touched", "liveness_verdict", ctx.idx, format!("link {i}: {msg}"));
                }
                let _ = a;
                if accounting_projection(a) != accounting_projection(b) {
                    out.violate(
                        "C12.state_touched",
                        "",
                        ctx.idx,
                        format!("a routing decision changed liveness/accounting state of link {i}:\n before {}\n after  {}", accounting_projection(a), accounting_projection(b)),
                    );
                }
                let (pa, pb) = (a.verif_private(), b.verif_private());
                if pa.stall_latched_since_ms != pb.stall_latched_since_ms || pa.silence_pulled != pb.silence_pulled || pa.stall_gated != pb.stall_gated {
                    out.probe("c12.guard_state_moved");
                }
            }
            if !s.cfg.stall_deselect {
                out.probe("c12.guard_off_decision");
                for (i, b) in s.post.iter().enumerate() {
                    let p = b.verif_private();
                    if p.stall_gated || p.silence_pulled || p.stall_latched_since_ms != 0 || p.stall_recovery_since_ms != 0 {
                        out.violate("C12.guard_off", "flags", ctx.idx, format!("guard off but link {i} keeps stall state {p:?}"));
                    }
                }
                let had_history = s.pre.iter().any(|c| {
                    let p = c.verif_private();
                    p.stall_latched_since_ms != 0 || p.silence_pulled || p.stall_gated || c.last_ack_or_rtt_sample_ms != 0
                });
                if had_history {
                    out.probe("c12.guard_off_with_history");
                }
                let mut clean: Vec<SrtlaConnection> = s.pre.clone();
                for c in clean.iter_mut() {
                    c.verif_clear_stall_history();
                }
                let baseline = select_connection_idx(&mut clean, s.last, s.now, &s.cfg);
                if baseline != s.result {
                    out.violate(
                        "C12.guard_off",
                        "decision",
                        ctx.idx,
                        format!("guard off: decision {:?} differs from {:?} on the same links without stall history", s.result, baseline),
                    );
                }
            }
        }
    }
}

// ---------------------------------------------------------------- C13

#[derive(Clone, Debug, Default)]
pub struct Latch {
    latched: bool,
    /// Start of the current uninterrupted run of selects that all saw fresh proof.
    run_start: Option<u64>,
    pulled: bool,
    pub gate_events: u64,
    pub pulls: u64,
}

#[derive(Default)]
pub struct C13 {
    pub own: OwnModel,
    pub st: Vec<Latch>,
}

fn stale_window(srtt: f64, ceiling: u64) -> u64 {
    if srtt <= 0.0 {
        return ceiling;
    }
    ((srtt as u64).saturating_mul(4)).max(1000).min(ceiling)
}

fn pull_window(srtt: f64, ceiling: u64) -> u64 {
    let base = if srtt <= 0.0 { 250 } else { ((srtt as u64).saturating_mul(2)).max(250) };
    base.min(stale_window(srtt, ceiling))
}

impl C13 {
    /// Size the per-link latch bookkeeping (engine L adapter).
    pub fn resize(&mut self, n: usize) {
        if self.st.len() != n {
            self.st = vec![Latch::default(); n];
        }
    }

    pub fn judge(&mut self, s: &SelectObs, idx: u64, out: &mut MonOut) {
        let guard = s.cfg.stall_deselect;
        for i in 0..s.pre.len() {
            let pre = &s.pre[i];
            let post = &s.post[i];
            let (p0, p1) = (pre.verif_private(), post.verif_private());
            let own = &self.own.links[i];
            let st = &mut self.st[i];
            let t = s.now;
            let srtt = pre.get_smooth_rtt_ms();
            let w = stale_window(srtt, s.cfg.stall_ack_stale_ms);
            let pw = pull_window(srtt, s.cfg.stall_ack_stale_ms);
            let loaded = pre.in_flight_packets >= s.cfg.stall_min_in_flight;
            let proof_age = own.proof_at.map(|p| t.saturating_sub(p));
            let fresh = proof_age.is_some_and(|a| a < w);
            let l0 = p0.stall_latched_since_ms != 0;
            let l1 = p1.stall_latched_since_ms != 0;
            if !guard {
                *st = Latch { gate_events: st.gate_events, pulls: st.pulls, ..Default::default() };
                continue;
            }
            if w < 1000 {
                out.probe("c13.ceiling_below_floor");
            } else if w == s.cfg.stall_ack_stale_ms && srtt > 0.0 {
                out.probe("c13.ceiling_bound_window");
            } else if w > 1000 {
                out.probe("c13.rtt_bound_window");
            }
            // ---- silence pull ----
            if !p0.silence_pulled && p1.silence_pulled {
                out.probe("c13.pull_engaged");
                st.pulls += 1;
                let silent = own.connected && loaded && own.heard_at.is_some_and(|h| t.saturating_sub(h) >= pw);
                if !silent {
                    out.violate(
                        "C13.pull",
                        "engaged_without_silence",
                        idx,
                        format!("link {i}: silence pull engaged; connected={} in-flight={} (threshold {}) heard {:?} ms ago (pull window {pw})", own.connected, pre.in_flight_packets, s.cfg.stall_min_in_flight, own.heard_at.map(|h| t - h)),
                    );
                }
            }
            if p0.silence_pulled && !p1.silence_pulled && !own.reset_since_select {
                out.probe("c13.pull_released");
                let spoke = own.heard_at.is_some_and(|h| t.saturating_sub(h) < pw);
                if !(spoke || !own.connected) {
                    out.violate(
                        "C13.pull",
                        "released_while_mute",
                        idx,
                        format!("link {i}: silence pull released although the link was last heard {:?} ms ago (pull window {pw}) and is connected", own.heard_at.map(|h| t - h)),
                    );
                }
            }
            if p1.silence_pulled && !own.reset_since_select {
                let spoke = own.heard_at.is_some_and(|h| t.saturating_sub(h) < pw);
                if spoke || !own.connected {
                    out.violate(
                        "C13.pull",
                        "held_after_speaking",
                        idx,
                        format!("link {i}: silence pull still held although the link was heard {:?} ms ago (pull window {pw}), connected={}", own.heard_at.map(|h| t - h), own.connected),
                    );
                }
            }
            // ---- latch rising edge ----
            if !l0 && l1 {
                out.probe("c13.latch_engaged");
                st.gate_events += 1;
                // the pull is re-evaluated first in every decision: only a pull that still holds
                // after this decision's own evaluation can carry the latch
                let held = loaded || p1.silence_pulled;
                let stale = proof_age.is_some_and(|a| a >= w);
                if own.proof_at.is_none() {
                    out.violate("C13.latch", "never_proved", idx, format!("link {i} was latched although it has never produced delivery proof"));
                } else if !(held && stale) {
                    out.violate(
                        "C13.latch",
                        if !stale { "engaged_with_fresh_proof" } else { "engaged_without_backlog" },
                        idx,
                        format!(
                            "link {i} latched: in-flight {} (threshold {}), pulled {}/{}, proof age {:?} ms, staleness window {w} (srtt {srtt:.1}, ceiling {})",
                            pre.in_flight_packets, s.cfg.stall_min_in_flight, p0.silence_pulled, p1.silence_pulled, proof_age, s.cfg.stall_ack_stale_ms
                        ),
                    );
                }
                if p0.silence_pulled && !loaded {
                    out.probe("c13.escalated_from_pull");
                }
                st.run_start = None;
            }
            // ---- dwell bookkeeping (monitor's own) ----
            if l0 {
                if fresh {
                    st.run_start.get_or_insert(t);
                } else {
                    if st.run_start.is_some() {
                        out.probe("c13.lapse_resets_run");
                    }
                    st.run_start = None;
                }
            }
            // ---- latch falling edge ----
            if l0 && !l1 {
                if own.reset_since_select {
                    out.probe("c13.latch_cleared_by_reset");
                } else {
                    out.probe("c13.latch_released");
                    let dwell_ok = st.run_start.is_some_and(|r| t.saturating_sub(r) >= 2 * w);
                    if !(fresh && dwell_ok) {
                        out.violate(
                            "C13.latch",
                            if !fresh { "released_with_stale_proof" } else { "released_before_dwell" },
                            idx,
                            format!(
                                "link {i} rejoined: proof age {:?} ms, window {w}, uninterrupted fresh run since {:?} ms ago (needs {} ms)",
                                proof_age,
                                st.run_start.map(|r| t - r),
                                2 * w
                            ),
                        );
                    }
                }
                st.run_start = None;
            }
            if l1 && fresh && st.run_start.is_some() {
                out.probe("c13.dwell_in_progress");
            }
            if l1 && loaded == false && !fresh {
                out.probe("c13.latched_with_drained_backlog");
            }
            st.latched = l1;
            st.pulled = p1.silence_pulled;
            if post.stall_gate_events() != st.gate_events || post.silence_pulls() != st.pulls {
                out.violate(
                    "C13.counters",
                    "",
                    idx,
                    format!("link {i}: engagement counters {}/{} but {} latch and {} pull rising edges were observed", post.stall_gate_events(), post.silence_pulls(), st.gate_events, st.pulls),
                );
                st.gate_events = post.stall_gate_events();
                st.pulls = post.silence_pulls();
            }
        }
        for l in self.own.links.iter_mut() {
            l.reset_since_select = false;
        }
    }
}

impl KMonitor for C13 {
    fn on_start(&mut self, w: &KWorld) {
        self.own.start(w);
        self.st = vec![Latch::default(); w.conns.len()];
    }
    fn on_event(&mut self, ctx: &KCtx<'_>, out: &mut MonOut) {
        // routed packets of one event happen at one instant, before the event is "observed"
        let sel: Vec<&SelectObs> = ctx.eff.selects.iter().collect();
        for s in sel {
            self.judge(s, ctx.idx, out);
        }
        self.own.observe(ctx);
        if let KEv::MarkForRecovery { link } | KEv::Reconnect { link } = ctx.ev {
            let i = *link % self.st.len();
            self.own.links[i].proof_at = None;
        }
    }
}

// ---------------------------------------------------------------- C11

#[derive(Default)]
pub struct C11 {
    pub own: OwnModel,
    skip_idempotence: bool,
}

const EPS: f64 = 1e-9;

fn cap_exceeded(c: &SrtlaConnection) -> bool {
    if c.cc_target_bps == 0 {
        return false;
    }
    let rtt = c.get_rtt_min_ms();
    let rtt = if rtt.is_finite() && rtt > 0.0 { rtt } else { 1.0 };
    let cap = ((c.cc_target_bps as f64) * (rtt / 1000.0) / 8.0 * 1.5 / 1316.0).floor().max(1.0);
    (c.in_flight_packets as f64) > cap
}

impl KMonitor for C11 {
    fn on_start(&mut self, w: &KWorld) {
        self.own.start(w);
    }
    fn on_event(&mut self, ctx: &KCtx<'_>, out: &mut MonOut) {
        for s in &ctx.eff.selects {
            self.judge_select(s, ctx.idx, out);
        }
        self.own.observe(ctx);
    }
}

impl C11 {
    /// Engine L: the post-state already contains the routed packet, so the call cannot be repeated on it.
    pub fn judge_select_no_idempotence(&mut self, s: &SelectObs, idx: u64, out: &mut MonOut) {
        self.skip_idempotence = true;
        self.judge_select(s, idx, out);
        self.skip_idempotence = false;
    }

    pub fn judge_select(&mut self, s: &SelectObs, idx: u64, out: &mut MonOut) {
        struct Ctx {
            idx: u64,
        }
        let ctx = Ctx { idx };
        loop {
            if s.cfg.mode.is_classic() {
                break;
            }
            out.stats.inc("c11.decisions");
            let n = s.pre.len();
            let quality_on = s.cfg.quality_enabled;
            // A quality factor stamped in this decision is the factor of the link as it is now:
            // the cache may be up to 50 ms old, never a stale value under a fresh stamp.
            for i in 0..n {
                let (p0, p1) = (s.pre[i].verif_private(), s.post[i].verif_private());
                if p1.quality_last_calculated_ms == s.now && p0.quality_last_calculated_ms != s.now {
                    out.probe("c11.quality_recalculated");
                    let fresh = srtla_core::selection::calculate_quality_multiplier(&s.pre[i], s.now);
                    if (p1.quality_multiplier - fresh).abs() > 1e-12 * fresh.abs().max(1.0) {
                        out.violate(
                            "C11.quality_cache",
                            "stale_value_under_fresh_stamp",
                            idx,
                            format!("link {i}: quality factor stamped {} at this decision, the link's factor now is {fresh} (previous stamp {} ms ago)", p1.quality_multiplier, s.now.saturating_sub(p0.quality_last_calculated_ms)),
                        );
                    }
                }
            }
            // skipped set
            let elig: Vec<bool> = (0..n)
                .map(|i| {
                    let c = &s.pre[i];
                    let gated = s.post[i].verif_private().stall_gated;
                    self.own.usable(i, s.now, s.cfg.conn_timeout_ms) && !matches!(c.phase, LinkPhase::Registering) && !gated
                })
                .collect();
            let capped: Vec<bool> = s.pre.iter().map(cap_exceeded).collect();
            let any_unconstrained = (0..n).any(|i| elig[i] && !s.pre[i].weak && !s.pre[i].loss_degraded && !capped[i]);
            let scored: Vec<bool> = (0..n).map(|i| elig[i] && !(any_unconstrained && capped[i])).collect();
            let mut score = vec![f64::NAN; n];
            for i in 0..n {
                if !scored[i] {
                    continue;
                }
                let c = &s.pre[i];
                let base = (c.window / (c.in_flight_packets + c.batch_sender.queued_count() + 1).max(1)) as f64;
                let weight = match c.phase {
                    LinkPhase::Warming { .. } => 0.8,
                    LinkPhase::Registering => 0.0,
                    _ => 1.0,
                };
                let q = if quality_on { s.post[i].verif_private().quality_multiplier } else { 1.0 };
                if quality_on && !(q.is_finite() && q >= 0.35 - EPS && q <= 1.1 * 1.03 + EPS) {
                    out.violate("C11.factor_range", "quality", ctx.idx, format!("link {i}: quality multiplier {q}"));
                }
                let soft = if c.cc_target_bps == 0 || c.bitrate.current_bitrate_bps <= 0.0 {
                    1.0
                } else {
                    let cap = c.cc_target_bps as f64;
                    ((cap - c.bitrate.current_bitrate_bps).max(0.0) / cap).clamp(0.1, 1.0)
                };
                if soft < 1.0 {
                    out.probe("c11.soft_cap_active");
                }
                let gate = if any_unconstrained && (c.weak || c.loss_degraded) {
                    out.probe("c11.quality_gate_2pct");
                    0.02
                } else {
                    1.0
                };
                if weight < 1.0 {
                    out.probe("c11.warming_link_scored");
                }
                score[i] = base * weight * q * soft * gate;
                if !score[i].is_finite() {
                    out.violate("C11.factor_range", "score", ctx.idx, format!("link {i}: score {}", score[i]));
                }
            }
            let Some(ch) = s.result else { break };
            if ch >= n {
                break;
            }
            out.nontrivial = true;
            if !elig[ch] {
                out.violate("C11.gates", "skipped_link_chosen", ctx.idx, format!("link {ch} is ineligible (timed out / registering / stall-gated) but was chosen"));
                break;
            }
            if any_unconstrained && capped[ch] {
                out.violate("C11.gates", "capped_link_chosen", ctx.idx, format!("link {ch} is over its in-flight cap while an unconstrained link exists"));
                break;
            }
            if capped.iter().any(|c| *c) {
                out.probe("c11.cap_exceeded_somewhere");
            }
            let best = score.iter().copied().filter(|x| !x.is_nan()).fold(f64::NEG_INFINITY, f64::max);
            let last_scored = s.last.filter(|l| *l < n && scored[*l]);
            match last_scored {
                Some(l) if l != ch => {
                    out.probe("c11.switched");
                    if score[ch] < 1.10 * score[l] * (1.0 - EPS) - EPS {
                        out.violate(
                            "C11.hysteresis",
                            "left_without_margin",
                            ctx.idx,
                            format!("left link {l} (score {}) for link {ch} (score {}), less than 1.10x", score[l], score[ch]),
                        );
                    }
                    if score[ch] < best * (1.0 - EPS) - EPS {
                        out.violate("C11.argmax", "", ctx.idx, format!("switched to link {ch} (score {}) but the best score is {best}", score[ch]));
                    }
                }
                Some(l) => {
                    if best > score[l] * (1.0 + EPS) {
                        out.probe("c11.held_by_hysteresis");
                        if best >= 1.10 * score[l] * (1.0 + EPS) + EPS {
                            out.violate(
                                "C11.hysteresis",
                                "stayed_despite_margin",
                                ctx.idx,
                                format!("stayed on link {l} (score {}) although another link scores {best} (>= 1.10x)", score[l]),
                            );
                        }
                    }
                }
                None => {
                    if s.last.is_some() {
                        out.probe("c11.last_link_skipped");
                    }
                    if score[ch] < best * (1.0 - EPS) - EPS {
                        out.violate("C11.argmax", "", ctx.idx, format!("chose link {ch} (score {}) but the best score is {best}", score[ch]));
                    }
                }
            }
            if self.skip_idempotence {
                break;
            }
            // idempotence: the same call on the resulting state returns the same uplink
            let mut again: Vec<SrtlaConnection> = s.post.clone();
            let r2 = select_connection_idx(&mut again, s.result, s.now, &s.cfg);
            if r2 != s.result {
                out.violate("C11.idempotence", "", ctx.idx, format!("selection returned {:?}, repeated on the unchanged state it returned {:?}", s.result, r2));
            }
            break;
        }
    }
}

// ---------------------------------------------------------------- C04 (selector part)

/// The scheduler itself (no shell, no override): whatever it returns must be an
/// eligible uplink by the monitor's own model.
#[derive(Default)]
pub struct C04K {
    own: OwnModel,
}

impl KMonitor for C04K {
    fn on_start(&mut self, w: &KWorld) {
        self.own.start(w);
    }
    fn on_event(&mut self, ctx: &KCtx<'_>, out: &mut MonOut) {
        for s in &ctx.eff.selects {
            let Some(i) = s.result else { continue };
            if i >= s.pre.len() {
                continue;
            }
            out.probe("c04k.decision");
            let gated = s.post[i].verif_private().stall_gated;
            let l = &self.own.links[i];
            let heard = l.heard_at.is_some_and(|h| s.now.saturating_sub(h) < s.cfg.conn_timeout_ms);
            let reason = if !(l.registered && l.connected) {
                Some("unregistered")
            } else if !heard {
                Some("timed_out")
            } else if gated {
                Some("stall_gated")
            } else {
                None
            };
            if s.post.iter().enumerate().any(|(k, c)| k != i && c.connected && (c.verif_private().stall_gated || !self.own.usable(k, s.now, s.cfg.conn_timeout_ms))) {
                out.probe("c04k.ineligible_link_present");
            }
            if let Some(r) = reason {
                out.violate(
                    "C04.ineligible_route",
                    &format!("selector/{r}"),
                    ctx.idx,
                    format!(
                        "scheduler ({}) returned link {i}: registered={} connected={} heard {:?} ms ago (timeout {}) stall_gated={gated}",
                        if s.cfg.mode.is_classic() { "classic" } else { "enhanced" },
                        l.registered,
                        l.connected,
                        l.heard_at.map(|h| s.now - h),
                        s.cfg.conn_timeout_ms
                    ),
                );
            }
        }
        self.own.observe(ctx);
    }
}
