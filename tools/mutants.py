#!/usr/bin/env python3
"""Sensitivity suite: apply one property-breaking edit to /repo, run the quick check, revert.
Usage: mutants.py [name-substring ...]   (always leaves /repo clean: git checkout -- .)"""
import subprocess, sys, os, time

R = "/repo/"
M = [
 # (name, property, file, old, new)
 ("c01-flush-only-due", "C01", "src/sender/packet_handler.rs", "        if (conn.needs_batch_flush(now) || conn.has_queued_packets())\n", "        if conn.needs_batch_flush(now)\n"),
 ("c01-probe-every-10", "C01", "crates/srtla-core/src/config_snapshot.rs", "pub const STALL_PROBE_ONE_IN_N: u32 = 100;", "pub const STALL_PROBE_ONE_IN_N: u32 = 10;"),
 ("c01-short-send-drops-rest", "C01", "src/net/mod.rs", "            Ok(n) => sent += n,", "            Ok(_) => sent += take,"),
 ("c02-retain-ge", "C02", "crates/srtla-core/src/connection/ack_nak.rs", "self.packet_log.retain(|&seq, _| seq > ack);", "self.packet_log.retain(|&seq, _| seq >= ack);"),
 ("c02-nak-skips-inflight", "C02", "crates/srtla-core/src/connection/ack_nak.rs", "        if found {\n            self.in_flight_packets = self.packet_log.len() as i32;\n            self.congestion\n", "        if found {\n            self.congestion\n"),
 ("c03-gate-without-any-healthy", "C03", "crates/srtla-core/src/selection/mod.rs", "c.stall_gated = any_healthy && (c.stall_latched() || c.silence_pulled);", "c.stall_gated = c.stall_latched() || c.silence_pulled;"),
 ("c03-best-score-zero", "C03", "crates/srtla-core/src/selection/enhanced.rs", "let mut best_score: f64 = -1.0;", "let mut best_score: f64 = 0.0;"),
 ("c04-selector-ignores-gate", "C04", "crates/srtla-core/src/selection/enhanced.rs", "if c.is_timed_out(current_time_ms) || !c.is_schedulable() || c.stall_gated {", "if c.is_timed_out(current_time_ms) || !c.is_schedulable() {"),
 ("c04-override-ignores-timeout", "C04", "crates/srtla-core/src/priority.rs", "            || conn.is_timed_out(now_ms)\n", ""),
 ("c05-fallthrough-after-tracker-hit", "C05", "src/sender/packet_handler.rs", "        return connections[pos]\n            .handle_nak(nak as i32, current_time_ms)\n            .then_some(pos);\n", "        if connections[pos].handle_nak(nak as i32, current_time_ms) {\n            return Some(pos);\n        }\n"),
 ("c05-tracker-ignores-seq", "C05", "src/sender/sequence.rs", "self.conn_id != 0 && self.seq == seq && !self.is_expired(current_time_ms)", "self.conn_id != 0 && !self.is_expired(current_time_ms)"),
 ("c05-expiry-ge", "C05", "src/sender/sequence.rs", "current_time_ms.saturating_sub(self.timestamp_ms) > SEQUENCE_TRACKING_MAX_AGE_MS", "current_time_ms.saturating_sub(self.timestamp_ms) >= SEQUENCE_TRACKING_MAX_AGE_MS"),
 ("c06-global-uncapped", "C06", "crates/srtla-core/src/connection/ack_nak.rs", "self.window = min(self.window + 1, WINDOW_MAX * WINDOW_MULT);", "self.window += 1;"),
 ("c06-nak-floor-zero", "C06", "crates/srtla-core/src/connection/congestion/mod.rs", "*window = (*window - WINDOW_DECR).max(WINDOW_MIN * WINDOW_MULT);", "*window = (*window - WINDOW_DECR).max(0);"),
 ("c07-reg2-any-link", "C07", "crates/srtla-core/src/registration/mod.rs", "        if self.pending_reg2_idx == Some(conn_idx) {\n            // server returns full id", "        if self.pending_reg2_idx.is_some() {\n            // server returns full id"),
 ("c07-reg2-len-off-by-one", "C07", "crates/srtla-core/src/registration/mod.rs", "if buf.len() < 2 + SRTLA_ID_LEN {", "if buf.len() < 1 + SRTLA_ID_LEN {"),
 ("c07-driver-ignores-active", "C07", "crates/srtla-core/src/registration/mod.rs", "        if self.active_connections == 0 {\n            if let Some(idx) = self.reg1_target_idx {", "        if true {\n            if let Some(idx) = self.reg1_target_idx {"),
 ("c08-timeout-on-last-sent", "C08", "crates/srtla-core/src/connection/mod.rs", "        if let Some(lr) = self.last_received {\n            now.saturating_sub(lr) >= self.conn_timeout_ms", "        if let Some(lr) = self.last_sent {\n            now.saturating_sub(lr) >= self.conn_timeout_ms"),
 ("c08-reset-keeps-window", "C08", "crates/srtla-core/src/connection/mod.rs", "        self.connected = false;\n        self.window = WINDOW_DEF * WINDOW_MULT;\n", "        self.connected = false;\n"),
 ("c08-backoff-base-2s", "C08", "crates/srtla-core/src/connection/reconnection.rs", "const BASE_RECONNECT_DELAY_MS: u64 = 5000;", "const BASE_RECONNECT_DELAY_MS: u64 = 2000;"),
 ("c09-forward-keepalive", "C09", "src/sender/uplink_recv.rs", "                conn.last_ack_or_rtt_sample_ms = now;\n            }\n", "                conn.last_ack_or_rtt_sample_ms = now;\n            }\n            incoming.forward_to_client.push(SmallVec::from_slice_copy(data));\n"),
 ("c09-proof-on-every-byte", "C09", "src/sender/uplink_recv.rs", "        conn.last_received = Some(now);\n\n        if pt == SRT_TYPE_ACK {", "        conn.last_received = Some(now);\n        conn.last_ack_or_rtt_sample_ms = now;\n\n        if pt == SRT_TYPE_ACK {"),
 ("c10-ge-argmax", "C10", "crates/srtla-core/src/selection/classic.rs", "        if score > best_score {", "        if score >= best_score {"),
 ("c10-plus-30", "C10", "crates/srtla-core/src/connection/congestion/classic.rs", "*window = min(*window + WINDOW_INCR - 1, WINDOW_MAX * WINDOW_MULT);", "*window = min(*window + WINDOW_INCR, WINDOW_MAX * WINDOW_MULT);"),
 ("c11-hysteresis-le", "C11", "crates/srtla-core/src/selection/enhanced.rs", "&& best_score < current * SWITCH_THRESHOLD", "&& best_score < current * 1.25"),
 ("c11-penalty-always", "C11", "crates/srtla-core/src/selection/enhanced.rs", "let quality_gated = any_unconstrained && (c.weak || c.loss_degraded);", "let quality_gated = c.weak || c.loss_degraded;"),
 ("c12-latch-touches-last-received", "C12", "crates/srtla-core/src/connection/mod.rs", "                self.stall_latched_since_ms = now_ms;\n                self.stall_gate_events += 1;", "                self.stall_latched_since_ms = now_ms;\n                self.last_received = None;\n                self.stall_gate_events += 1;"),
 ("c13-dwell-x1", "C13", "crates/srtla-core/src/config_snapshot.rs", "pub const STALL_REJOIN_DWELL_MULT: u64 = 2;", "pub const STALL_REJOIN_DWELL_MULT: u64 = 1;"),
 ("c13-unproved-latches", "C13", "crates/srtla-core/src/connection/mod.rs", "            && self.in_flight_packets >= min_in_flight\n            && self.last_ack_or_rtt_sample_ms != 0\n", "            && self.in_flight_packets >= min_in_flight\n"),
 ("c14-idle-gt", "C14", "crates/srtla-core/src/connection/mod.rs", "Some(last) => now_ms.saturating_sub(last) >= IDLE_TIME * 1000,", "Some(last) => now_ms.saturating_sub(last) > IDLE_TIME * 1000,"),
 ("c14-accept-rtt-zero", "C14", "crates/srtla-core/src/connection/rtt.rs", "            if rtt > 0 && rtt <= 10_000 {\n                self.update_estimate(rtt, now);", "            if rtt <= 10_000 {\n                self.update_estimate(rtt, now);"),
 ("c15-ack-offset-12", "C15", "crates/srtla-protocol/src/parsers.rs", "Some(u32::from_be_bytes([buf[16], buf[17], buf[18], buf[19]]))", "Some(u32::from_be_bytes([buf[12], buf[13], buf[14], buf[15]]))"),
 ("c15-nak-cap-removed", "C15", "crates/srtla-protocol/src/parsers.rs", "while seq <= end && out.len() < 1000 {", "while seq <= end && out.len() < 100000 {"),
 ("c16-step-8pct", "C16", "crates/srtla-core/src/selection/link_cc.rs", "const HAI_STEP_PERMILLE: u32 = 60;", "const HAI_STEP_PERMILLE: u32 = 80;"),
 ("c16-backoff-floor-removed", "C16", "crates/srtla-core/src/selection/link_cc.rs", "                decreased.max(delivered_floor)", "                decreased"),
 ("c17-sustain-1", "C17", "crates/srtla-core/src/selection/classifier.rs", "const WEAK_SUSTAIN_TICKS: u32 = 2;", "const WEAK_SUSTAIN_TICKS: u32 = 1;"),
 ("c17-probation-never", "C17", "crates/srtla-core/src/selection/classifier.rs", "                    probation = PROBATION_WINDOW_TICKS;", "                    probation = 0;"),
 ("c18-clamp-removed", "C18", "src/config.rs", "        let applied = ms.clamp(CONN_TIMEOUT_MS_MIN, CONN_TIMEOUT_MS_MAX);\n        self.conn_timeout_ms.store", "        let applied = ms.max(CONN_TIMEOUT_MS_MIN);\n        self.conn_timeout_ms.store"),
 ("c18-notification-not-applied", "C18", "src/control.rs", "    let is_notification = req.id.is_none();\n    let id_for_response = req.id.clone().unwrap_or(Value::Null);\n    let result = handle_method(", "    let is_notification = req.id.is_none();\n    if is_notification {\n        return None;\n    }\n    let id_for_response = req.id.clone().unwrap_or(Value::Null);\n    let result = handle_method("),
 ("c19-tracker-not-purged", "C19", "src/sender/connections.rs", "            seq_tracker.remove_connection(conn_id);\n", ""),
 ("c19-selection-kept", "C19", "src/sender/connections.rs", "        *last_selected_idx = None;\n", ""),
 ("c20-send-await", "C20", "src/subscriptions.rs", "match entry.sender.try_send(line) {\n                    Ok(()) => {}", "match entry.sender.send(line).await.map_err(|e| mpsc::error::TrySendError::Closed(e.0)) {\n                    Ok(()) => {}"),
 ("glue-no-timer-flush", "C01", "src/sender/mod.rs", "                        flush_all_batches(&mut connections, &conn_io).await;\n", "                        let _ = (&mut connections, &conn_io);\n"),
 ("glue-flush-interval-40", "C01", "src/sender/mod.rs", "const BATCH_FLUSH_INTERVAL_MS: u64 = 15;", "const BATCH_FLUSH_INTERVAL_MS: u64 = 40;"),
 ("glue-housekeeping-3s", "C14", "src/sender/mod.rs", "pub const HOUSEKEEPING_INTERVAL_MS: u64 = 1000;", "pub const HOUSEKEEPING_INTERVAL_MS: u64 = 3000;"),
 ("glue-uplink-arm-no-handle", "C09", "src/sender/mod.rs", "                        if let Some(packet) = packet {\n                            handle_uplink_packet(", "                        if let Some(packet) = packet.filter(|p| p.bytes.len() != 44) {\n                            handle_uplink_packet("),
 ("glue-sighup-single-ip-dropped", "C19", "src/sender/mod.rs", "                        new_ips: Some(ips),\n", "                        new_ips: Some(ips).filter(|i: &SmallVec<IpAddr, 4>| i.len() > 1),\n"),
 ("glue-housekeeping-clock-ahead", "C08", "src/sender/mod.rs", "                            classic,\n                            srtla_core::utils::now_ms(),\n                            &mut all_failed_at,\n                            &mut reader_handles,\n                            &packet_tx,\n                        ).await {", "                            classic,\n                            srtla_core::utils::now_ms() + 4500,\n                            &mut all_failed_at,\n                            &mut reader_handles,\n                            &packet_tx,\n                        ).await {"),
 ("glue-cc-controller-reset-on-reload", "C16", "src/sender/mod.rs", "                            info!(\"connection changes applied successfully\");\n", "                            info!(\"connection changes applied successfully\");\n                            link_cc_controller = srtla_core::selection::link_cc::LinkCcController::new();\n"),
 ("glue-classifier-reset-on-reload", "C17", "src/sender/mod.rs", "                            info!(\"connection changes applied successfully\");\n", "                            info!(\"connection changes applied successfully\");\n                            weak_link_filter = srtla_core::selection::classifier::WeakLinkFilter::new();\n"),
 ("c20-prune-inverted", "C20", "src/subscriptions.rs", "entries.retain(|e| !to_prune.contains(&e.id));", "entries.retain(|e| to_prune.contains(&e.id));"),
]

def sh(cmd, **kw):
    return subprocess.run(cmd, shell=True, capture_output=True, text=True, **kw)

def main():
    global R
    want = [a for a in sys.argv[1:] if not a.startswith("--")]
    isolated = "--isolated" in sys.argv
    repo, runsh = "/repo", "/verif/run.sh"
    if isolated:
        # scratch worktree of /repo and scratch copy of the simulator (paths rewritten), so that the
        # suite can run while /repo and /verif/sim are in use; both are removed at the end
        repo, mv = "/tmp/mut_repo", "/tmp/mut_verif"
        sh(f"git -C /repo worktree remove --force {repo}; rm -rf {repo} {mv}; git -C /repo worktree prune")
        sh(f"git -C /repo worktree add --detach {repo} HEAD")
        sh(f"mkdir -p {mv} && rsync -a --exclude target /verif/sim {mv}/ && cp /verif/run.sh {mv}/")
        sh(f"sed -i 's#\"/repo#\"{repo}#g' {mv}/sim/Cargo.toml {mv}/sim/src/main.rs")
        R = repo + "/"
        runsh = mv + "/run.sh"
    results = []
    for name, prop, f, old, new in M:
        if want and not any(w in name for w in want):
            continue
        sh(f"git -C {repo} checkout -- .")
        p = R + f
        s = open(p).read()
        if old not in s:
            results.append((name, prop, "PATTERN-NOT-FOUND"))
            print(name, "PATTERN-NOT-FOUND", flush=True)
            continue
        open(p, "w").write(s.replace(old, new, 1))
        env = dict(os.environ, VERIF_EVIDENCE_DIR="/tmp/ev", VERIF_REPLAY_DIR="/tmp/ev", CARGO_NET_OFFLINE="true")
        t = time.time()
        r = subprocess.run([runsh, prop, "quick"], capture_output=True, text=True, env=env)
        dt = time.time() - t
        line = [l for l in r.stdout.splitlines() if l.startswith("violation:")]
        verdict = {0: "MISSED", 1: "caught", 2: "HARNESS-ERROR"}.get(r.returncode, str(r.returncode))
        results.append((name, prop, verdict))
        print(f"{name:40s} {prop} {verdict:14s} {dt:5.1f}s {line[0][:160] if line else r.stdout.strip().splitlines()[-1][:160] if r.stdout.strip() else ''}", flush=True)
        sh(f"git -C {repo} checkout -- .")
    sh(f"git -C {repo} checkout -- .")
    if isolated:
        sh(f"git -C /repo worktree remove --force {repo}; rm -rf /tmp/mut_verif; git -C /repo worktree prune")
    missed = [r for r in results if r[2] != "caught"]
    print(f"\n{len(results) - len(missed)}/{len(results)} caught; not caught: {missed}")

main()
