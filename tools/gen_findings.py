#!/usr/bin/env python3
"""Regenerate /verif/known_findings.json from the table below (commit hashes are looked up by subject)."""
import json, subprocess

def sha(prefix):
    out = subprocess.run(["git", "-C", "/repo", "log", "--format=%H %s"], capture_output=True, text=True).stdout.splitlines()
    for l in out:
        h, s = l.split(' ', 1)
        if s.startswith(prefix):
            return h
    raise SystemExit("no commit: " + prefix)

FIXED = [
 ("C02", "C02.in_flight:not_retired_by_cumulative_ack", "fix: retire packets registered",
  "a data packet sent after a cumulative SRT ACK had already named its number (e.g. the packet whose number the previous ACK gave as next expected, or a late retransmission) was never retired by later cumulative ACKs: handle_srt_ack only visits (highest_acked_seq, ack]. Replay: 9 packets at 30 pps on one link, ACK n arrives before packet n is sent, ACK n+1 leaves in-flight at 1 (set model 0)."),
 ("C04", "C04.ineligible_route:priority_override/stall_gated", "fix: best-path override must not",
  "the keyframe-window / SRT-retransmit best-path override (select_best_quality_idx) filtered only on connected + phase, so R-flagged data and critical-window data were queued on a link the stall guard had gated in that very decision."),
 ("C04", "C04.ineligible_route:priority_override/timed_out", "fix: best-path override must not",
  "same defect as priority_override/stall_gated: the override could pick a connected link that had been silent for longer than the liveness timeout and was waiting for housekeeping / its reconnect back-off."),
 ("C10", "C10.choice:must_land_packet", "fix: classic mode never applies",
  "in classic mode retransmit-flagged data and packets inside a critical window were routed by the best-path override (first connected link, all quality caches at their default) instead of the reference window/(in_flight+queued+1) rule."),
 ("C04", "C04.ineligible_route:selector/unregistered", "fix: a disconnected uplink is never",
  "after a REG_ERR a link is disconnected but keeps phase Warming/Live; a later datagram refreshes last_received, so the enhanced selector (score -0.8 > initial best -1.0) routed data onto it and the stall guard counted it as the healthy alternative and gated the only real link. Replay: 2 links, conn_timeout 1001 ms, idle flapping until a REG1 is answered REG_ERR, then a burst."),
 ("C08", "C08.liveness:registering_link_kept_alive", "fix: a disconnected uplink does not wait",
  "a disconnected link (answered REG_ERR after a receiver restart, or REG3 lost) that hears one stray datagram was judged by the tunable conn_timeout_ms and not re-attempted for up to 60 s although its path delivered and the receiver would have accepted it. Replay: 3 links, conn_timeout 60000 ms, receiver restart at 4.1 s; link down for > 32 s after the faults ended."),
 ("C16", "C16.growth:reseed_at_floor", "fix: seed the per-link CC target once",
  "LinkCongestionState::tick re-seeded the target whenever it equalled the 100 kbit/s floor, not only on the first non-bootstrap tick: after drain entries / back-off had driven it to the floor the next tick set it to max(observed, 1 Mbit/s) (100000 -> 4000000 in one tick in the replay), far above the 6 % per-tick growth bound."),
 ("C18", "C18.socket:unterminated_last_request_unanswered", "fix: control socket keeps a partially",
  "src/control_socket.rs handle() selected between reader.read_line() and the connection's push channel; read_line is not cancellation safe, so when a subscription event won the select while a request had only partly arrived (split across writes, or a last request without a newline before the half-close) the bytes already read were dropped with the future: the request was never answered or applied (stdin answers it), or its tail was answered as a parse error. Replay (engine X): one client subscribes to priority.window, writes a set_conn_timeout request without a newline, three events are published, the client half-closes: 8 responses for 9 answerable requests."),
 ("C18", "C18.socket:missing_response", "fix: control socket keeps a partially",
  "same defect as unterminated_last_request_unanswered, for a request in the middle of the stream whose first part was dropped and whose tail merged into the next line."),
 ("C18", "C18.socket:entry_points_differ", "fix: control socket keeps a partially",
  "same defect: the tail of a request whose head was dropped is answered -32700 on the socket where stdin answers the request."),
 ("C18", "C18.socket:not_applied", "fix: control socket keeps a partially",
  "same defect: a set_* notification whose head was dropped is not applied on the socket."),
]
KNOWN = [
 ("C08", "C08.liveness:handshake_slot_held_by_uplinks_losing_reg2",
  "when an uplink keeps hearing the receiver's REG_NGP but never its REG2 (lost handshake replies on that path only), it takes the single outstanding-REG1 slot again every retry round - the fastest path answers first, and a link that holds the slot re-arms it with its own REG1 re-send - while every other uplink defers ('another uplink is awaiting REG2') and, sending nothing, is never offered the slot: healthy uplinks whose paths deliver and whom the receiver would accept stay down indefinitely. Replay (engine L): 3 uplinks, conn_timeout 1000 ms, REG2 replies lost on the lowest-latency uplink only, receiver restart at 12.4 s; the other two uplinks are still down 32 s after the last fault. Not repaired: a first-cut fail-over (skip the uplink whose REG1 just went unanswered) fixes the one-bad-link history but not histories with several such links; a complete repair changes the handshake scheduling (deferred links must keep probing, the slot must rotate) and is not a small patch. Identified by: C08.liveness in histories whose plan leaves REG2-reply loss switched on for some path."),
]

def main():
    out = {"_comment": "Read-only at run time. status=known: the check prints KNOWN-FINDING and exits 0 for exactly this signature; status=fixed: suppresses nothing (the defect was repaired by the named fix: commit in /repo and the check reports it again if it returns).",
           "findings": []}
    for p, s, c, w in FIXED:
        h = sha(c)
        out["findings"].append({"property": p, "status": "fixed", "signature": s, "commit": h, "what": w,
                                "line": f"fixed: property={p} {h[:12]} {w}"})
    for p, s, w in KNOWN:
        out["findings"].append({"property": p, "status": "known", "signature": s, "what": w})
    json.dump(out, open('/verif/known_findings.json', 'w'), indent=1)
    print(len(out["findings"]), "entries")

main()
