//! Engine S — thread-schedule simulation under shuttle.
//!
//! The control plane's configuration (`/repo/src/config.rs`, compiled into this
//! crate with `--cfg verif_shuttle`, so its atomics are shuttle's) is driven by
//! concurrent setter and reader threads under shuttle's seeded schedulers: every
//! interleaving at atomic-operation granularity is a function of the run seed.
//! Decides the "concurrent setters and snapshot readers" clause of C18.

#[cfg(not(verif_shuttle))]
compile_error!("engine S needs --cfg verif_shuttle (set by build.rs)");

use std::sync::{Arc, Mutex};

use serde::{Deserialize, Serialize};
use serde_json::Value;
use shuttle::scheduler::{PctScheduler, RandomScheduler};
use shuttle::{Config, Runner};

use crate::common::{Check, RunOutcome, Stats, Tier, Violation};
use crate::config::DynamicConfig;
use crate::control::dispatch;
use crate::prng::{LogHash, Rng};

#[derive(Clone, Debug, Serialize, Deserialize, PartialEq)]
pub enum Op {
    /// `set_conn_timeout` with this value through the real dispatcher.
    SetTimeout(u64),
    SetMode(bool),
    SetQuality(bool),
    SetStall(bool),
    Snapshot,
    GetStatus,
}

#[derive(Clone, Debug, Serialize, Deserialize, PartialEq)]
pub struct SPlan {
    pub seed: u64,
    pub pct: Option<usize>,
    pub threads: Vec<Vec<Op>>,
}

pub fn generate(seed: u64, index: u64) -> SPlan {
    let mut r = Rng::new(seed ^ 0x5C18);
    let n = r.range(2, 4) as usize;
    let vals = [0u64, 1, 999, 1000, 1001, 5000, 59_999, 60_000, 60_001, 3_600_000, u64::MAX];
    let threads = (0..n)
        .map(|t| {
            let writer = t == 0 || r.chance(0.4);
            (0..r.range(1, 4))
                .map(|_| {
                    if writer && r.chance(0.75) {
                        match r.below(6) {
                            0 => Op::SetMode(r.chance(0.5)),
                            1 => Op::SetQuality(r.chance(0.5)),
                            2 => Op::SetStall(r.chance(0.5)),
                            _ => Op::SetTimeout(*r.pick(&vals)),
                        }
                    } else if r.chance(0.5) {
                        Op::Snapshot
                    } else {
                        Op::GetStatus
                    }
                })
                .collect()
        })
        .collect();
    let _ = index;
    SPlan { seed, pct: if r.chance(0.5) { None } else { Some(r.range(1, 3) as usize) }, threads }
}

#[derive(Default)]
struct Shared {
    violations: Vec<Violation>,
    observed: Vec<u64>,
    ops: u64,
    switches: u64,
}

fn scenario(plan: &SPlan, shared: Arc<Mutex<Shared>>) {
    let cfg = DynamicConfig::new();
    // every value a reader may legitimately see
    let mut allowed: Vec<u64> = vec![5000];
    for t in &plan.threads {
        for op in t {
            if let Op::SetTimeout(v) = op {
                allowed.push((*v).clamp(1000, 60_000));
            }
        }
    }
    let allowed = Arc::new(allowed);
    // per boolean setting: which threads write it, and each writer's last value
    // (0 = classic mode, 1 = quality scoring, 2 = stall guard)
    let mut last_write: [Vec<(usize, bool)>; 3] = [Vec::new(), Vec::new(), Vec::new()];
    for (ti, t) in plan.threads.iter().enumerate() {
        for op in t {
            let (f, v) = match op {
                Op::SetMode(c) => (0, *c),
                Op::SetQuality(b) => (1, *b),
                Op::SetStall(b) => (2, *b),
                _ => continue,
            };
            last_write[f].retain(|(w, _)| *w != ti);
            last_write[f].push((ti, v));
        }
    }
    let sole_writer: [Option<usize>; 3] = [0, 1, 2].map(|f| (last_write[f].len() == 1).then(|| last_write[f][0].0));
    let handles: Vec<_> = plan
        .threads
        .iter()
        .enumerate()
        .map(|(ti, ops)| {
            let cfg = cfg.clone();
            let ops = ops.clone();
            let shared = shared.clone();
            let allowed = allowed.clone();
            shuttle::thread::spawn(move || {
                // what this thread itself last set, for the settings only it writes
                let mut mine: [Option<bool>; 3] = [None, None, None];
                for (k, op) in ops.iter().enumerate() {
                    match op {
                        Op::SetMode(c) => mine[0] = Some(*c),
                        Op::SetQuality(b) => mine[1] = Some(*b),
                        Op::SetStall(b) => mine[2] = Some(*b),
                        _ => {}
                    }
                    let mut seen: Option<u64> = None;
                    let mut bad: Option<(String, String)> = None;
                    match op {
                        Op::SetTimeout(v) => {
                            let line = format!(r#"{{"jsonrpc":"2.0","id":{k},"method":"set_conn_timeout","params":{{"ms":{v}}}}}"#);
                            let resp = dispatch(&cfg, None, None, &line).map(|r| r.to_json()).unwrap_or_default();
                            let val: Value = serde_json::from_str(&resp).unwrap_or(Value::Null);
                            let echoed = val["result"]["ms"].as_u64();
                            if echoed != Some((*v).clamp(1000, 60_000)) {
                                bad = Some(("C18.effect".into(), format!("echo: set_conn_timeout {v} answered {resp}")));
                            }
                        }
                        Op::SetMode(c) => {
                            let line = format!(r#"{{"jsonrpc":"2.0","method":"set_mode","params":{{"mode":"{}"}}}}"#, if *c { "classic" } else { "enhanced" });
                            let _ = dispatch(&cfg, None, None, &line);
                        }
                        Op::SetQuality(b) => {
                            let _ = dispatch(&cfg, None, None, &format!(r#"{{"jsonrpc":"2.0","method":"set_quality","params":{{"enabled":{b}}}}}"#));
                        }
                        Op::SetStall(b) => {
                            let _ = dispatch(&cfg, None, None, &format!(r#"{{"jsonrpc":"2.0","method":"set_stall_deselect","params":{{"enabled":{b}}}}}"#));
                        }
                        Op::Snapshot => {
                            let snap = cfg.snapshot();
                            seen = Some(snap.conn_timeout_ms);
                            // a successful set_* is visible in the next snapshot: for a setting that
                            // only this thread writes nothing can legitimately change it back
                            let got = [snap.mode.is_classic(), snap.quality_enabled, snap.stall_deselect];
                            for f in 0..3 {
                                if sole_writer[f] == Some(ti)
                                    && let Some(v) = mine[f]
                                    && got[f] != v
                                {
                                    bad = Some((
                                        "C18.effect".into(),
                                        format!("lost_update: thread {ti} op {k}: setting #{f} (0 mode=classic, 1 quality, 2 stall guard) was set to {v} by its only writer, the next snapshot shows {}", got[f]),
                                    ));
                                }
                            }
                        }
                        Op::GetStatus => {
                            let resp = dispatch(&cfg, None, None, r#"{"jsonrpc":"2.0","id":"s","method":"get_status"}"#).map(|r| r.to_json()).unwrap_or_default();
                            let val: Value = serde_json::from_str(&resp).unwrap_or(Value::Null);
                            seen = val["result"]["conn_timeout_ms"].as_u64();
                            if seen.is_none() {
                                bad = Some(("C18.response".into(), format!("get_status answered {resp}")));
                            }
                        }
                    }
                    if let Some(s) = seen
                        && (!(1000..=60_000).contains(&s) || !allowed.contains(&s))
                    {
                        bad = Some((
                            "C18.effect".into(),
                            format!("clamp_concurrent: thread {ti} op {k} observed connection timeout {s} (outside 1000..60000 or never applied) while setters were running"),
                        ));
                    }
                    let mut sh = shared.lock().unwrap();
                    sh.ops += 1;
                    if let Some(s) = seen {
                        sh.observed.push(s);
                    }
                    if let Some((m, msg)) = bad {
                        let (label, message) = msg.split_once(": ").map(|(a, b)| (a.to_string(), b.to_string())).unwrap_or((String::new(), msg.clone()));
                        sh.violations.push(Violation::new(&m, &label, k as u64, message));
                    }
                }
            })
        })
        .collect();
    for h in handles {
        let _ = h.join();
    }
    shared.lock().unwrap().switches = shuttle::current::context_switches() as u64;
    // quiescent end state: every boolean setting holds some writer's last value (the default if
    // nobody wrote it)
    let snap = cfg.snapshot();
    let got = [snap.mode.is_classic(), snap.quality_enabled, snap.stall_deselect];
    let defaults = [false, true, true];
    for f in 0..3 {
        let ok = if last_write[f].is_empty() { got[f] == defaults[f] } else { last_write[f].iter().any(|(_, v)| *v == got[f]) };
        if !ok {
            shared.lock().unwrap().violations.push(Violation::new(
                "C18.effect",
                "lost_update_end_state",
                0,
                format!("after all setters finished, setting #{f} (0 mode=classic, 1 quality, 2 stall guard) is {}, the last writes were {:?}", got[f], last_write[f]),
            ));
        }
    }
    // quiescent end state: the timeout is one of the applied values
    let end = cfg.snapshot().conn_timeout_ms;
    if !allowed.contains(&end) {
        shared.lock().unwrap().violations.push(Violation::new("C18.effect", "end_state", 0, format!("after all setters finished the timeout is {end}, which no request applied")));
    }
}

pub fn execute(plan: &SPlan, want_excerpt: bool) -> RunOutcome {
    let shared = Arc::new(Mutex::new(Shared::default()));
    let p2 = plan.clone();
    let s2 = shared.clone();
    let mut config = Config::new();
    config.failure_persistence = shuttle::FailurePersistence::None;
    let f = move || scenario(&p2, s2.clone());
    match plan.pct {
        Some(d) => Runner::new(PctScheduler::new_from_seed(plan.seed, d, 1), config).run(f),
        None => Runner::new(RandomScheduler::new_from_seed(plan.seed, 1), config).run(f),
    };
    let sh = shared.lock().unwrap();
    let mut log = LogHash::default();
    for o in &sh.observed {
        log.u64(*o);
    }
    log.u64(sh.ops);
    let mut stats = Stats::default();
    stats.add("c18s.operations", sh.ops);
    stats.add("c18s.timeout_observations", sh.observed.len() as u64);
    stats.add("c18s.context_switches", sh.switches);
    stats.inc(if plan.pct.is_some() { "c18s.pct_schedules" } else { "c18s.random_schedules" });
    let writers = plan.threads.iter().filter(|t| t.iter().any(|o| matches!(o, Op::SetTimeout(_)))).count();
    if writers >= 2 {
        stats.inc("c18s.two_or_more_concurrent_setters");
    }
    RunOutcome {
        violations: sh.violations.clone(),
        log_hash: log.0 ^ plan.seed,
        nontrivial: !sh.observed.is_empty() && writers >= 1,
        stats,
        states: vec![log.0],
        excerpt: if want_excerpt { vec![format!("observed timeouts: {:?}, context switches: {}", sh.observed, sh.switches)] } else { Vec::new() },
        ..Default::default()
    }
}

pub struct C18S;

impl Check for C18S {
    fn id(&self) -> &'static str {
        "C18"
    }
    fn engine(&self) -> &'static str {
        "S"
    }
    fn level(&self) -> &'static str {
        "exploration"
    }
    fn runs(&self, tier: Tier) -> u64 {
        match tier {
            Tier::Quick => 20_000,
            Tier::Thorough => 2_000_000,
        }
    }
    fn generate(&self, run_seed: u64, index: u64, _tier: Tier) -> Value {
        serde_json::to_value(generate(run_seed, index)).unwrap()
    }
    fn execute(&self, plan: &Value, want_excerpt: bool) -> RunOutcome {
        let plan: SPlan = serde_json::from_value(plan.clone()).unwrap_or_else(|e| panic!("bad S plan: {e}"));
        execute(&plan, want_excerpt)
    }
    fn shrink(&self, plan: &Value) -> Vec<Value> {
        let Ok(p) = serde_json::from_value::<SPlan>(plan.clone()) else { return Vec::new() };
        let mut out = Vec::new();
        for i in 0..p.threads.len() {
            if p.threads.len() > 2 {
                let mut q = p.clone();
                q.threads.remove(i);
                out.push(serde_json::to_value(q).unwrap());
            }
            for j in 0..p.threads[i].len() {
                if p.threads[i].len() > 1 {
                    let mut q = p.clone();
                    q.threads[i].remove(j);
                    out.push(serde_json::to_value(q).unwrap());
                }
            }
        }
        out
    }
    fn rule(&self) -> String {
        "one run = 2..4 threads (setters issuing set_conn_timeout with boundary and extreme values, set_mode / set_quality / set_stall_deselect through the real dispatch; readers taking configuration snapshots and get_status answers) executed once under shuttle's seeded random or PCT scheduler with the configuration atomics replaced by shuttle's, so every interleaving at atomic-operation granularity is a function of the run seed; oracle: every timeout a reader observes lies in 1000..60000 and is a value some request applied (or the default), every set_conn_timeout echo equals the clamped request, and the quiescent end state is an applied value".into()
    }
    fn assumptions(&self) -> Vec<String> {
        vec!["shuttle explores sequentially consistent interleavings of atomic operations; weak-memory reorderings of the relaxed atomics are not modelled".into(),
             "the control plane files are compiled into the simulator a second time with --cfg verif_shuttle (same source files, shuttle atomics)".into()]
    }
    fn real_components(&self) -> Vec<String> {
        vec!["/repo/src/config.rs (DynamicConfig, snapshot, setters) and /repo/src/control.rs (dispatch, handle_method), compiled into the simulator with shuttle atomics".into()]
    }
    fn stub_components(&self) -> Vec<String> {
        vec!["OS threads and scheduler: shuttle's controlled threads and seeded schedulers".into()]
    }
    fn expected_probes(&self) -> Vec<&'static str> {
        vec!["c18s.operations", "c18s.timeout_observations", "c18s.two_or_more_concurrent_setters", "c18s.pct_schedules", "c18s.random_schedules"]
    }
}
