//! Engine R — uplink reader simulation.
//!
//! The *real* reader tasks (`sender::uplink::spawn_reader`, started through the real
//! `sync_readers`) run over real loopback UDP sockets wrapped in the real `BatchUdpSocket`
//! (`recvmmsg` on Linux), on a current-thread tokio runtime with a paused clock and a seeded RNG.
//! The simulator is the peer: it decides what is sent to which uplink socket (lengths 0..1500,
//! zero-length datagrams included), how many datagrams pile up before a reader gets to run (bursts
//! longer than one `recvmmsg` batch), and how long the readers may run between two actions.
//! Oracle (C09, the part upstream of the uplink channel): per uplink, what arrives on the loop's
//! channel is exactly the non-empty datagrams that were sent to its socket - byte for byte, in
//! order, each once, tagged with that uplink's connection id.
//!
//! Loopback UDP delivers synchronously and in order into the receiving socket's buffer; the
//! volumes generated here stay far below the buffer size, and everything runs on one thread, so a
//! run is a function of its plan (the batch's determinism spot check and `run.sh setup` cover it).

use std::collections::HashMap;
use std::net::{SocketAddr, UdpSocket};
use std::sync::Arc;

use serde::{Deserialize, Serialize};
use serde_json::Value;
use srtla_core::connection::SrtlaConnection;
use srtla_send::net::{BatchUdpSocket, UplinkBinder};
use srtla_send::sender::verif_hooks as sh;

use crate::common::{RunOutcome, Stats};
use crate::lsim::MonOut;
use crate::prng::{LogHash, Rng, hash3};

#[derive(Clone, Debug, Serialize, Deserialize, PartialEq)]
pub enum ROp {
    /// `n` datagrams to uplink `u`, back to back; lengths and bodies derive from `(seed, k)`;
    /// `empty_at` lists positions inside the burst that are zero-length datagrams.
    Send { u: usize, n: u32, len: u32, empty_at: Vec<u32> },
    /// Let the reader tasks run: a few polls, or until nothing is runnable.
    Settle { deep: bool, polls: u32 },
    /// The loop re-synchronises its readers (nothing changed: no reader may be restarted or lost).
    Sync,
    /// Housekeeping re-opens uplink `u`'s socket and restarts its reader (`restart_reader_for`):
    /// from now on the uplink is its new socket; the superseded one must be dead.
    Reconnect { u: usize },
    /// `n` datagrams to the superseded socket of uplink `u` (late traffic for the old socket):
    /// none of them may reach the loop.
    SendOld { u: usize, n: u32 },
}

#[derive(Clone, Debug, Serialize, Deserialize, PartialEq)]
pub struct RPlan {
    pub seed: u64,
    pub uplinks: usize,
    pub ops: Vec<ROp>,
}

impl RPlan {
    pub fn to_value(&self) -> Value {
        serde_json::to_value(self).expect("plan serialises")
    }
    pub fn from_value(v: &Value) -> Result<RPlan, String> {
        serde_json::from_value(v.clone()).map_err(|e| format!("bad R plan: {e}"))
    }
}

pub fn generate(seed: u64) -> RPlan {
    let mut r = Rng::new(seed ^ 0x7EAD);
    let uplinks = r.range(1, 3) as usize;
    let mut ops = Vec::new();
    let mut total: u32 = 0;
    for _ in 0..r.range(3, 14) {
        match r.below(8) {
            0..=4 => {
                let n = match r.below(5) {
                    0 => 1,
                    1 => r.range(2, 8) as u32,
                    2 => r.range(30, 36) as u32, // around one recvmmsg batch
                    3 => r.range(60, 70) as u32,
                    _ => r.range(2, 40) as u32,
                };
                if total + n > 400 {
                    continue;
                }
                total += n;
                let mut empty_at = Vec::new();
                if r.chance(0.45) {
                    for _ in 0..r.range(1, 3) {
                        empty_at.push(r.below(n as u64) as u32);
                    }
                    empty_at.sort_unstable();
                    empty_at.dedup();
                }
                let len = *r.pick(&[1u32, 2, 16, 44, 188, 1316, 1472, 1500, 700]);
                ops.push(ROp::Send { u: r.below(uplinks as u64) as usize, n, len, empty_at });
            }
            5 => ops.push(if r.chance(0.5) { ROp::Sync } else { ROp::Reconnect { u: r.below(uplinks as u64) as usize } }),
            6 if r.chance(0.6) => ops.push(ROp::SendOld { u: r.below(uplinks as u64) as usize, n: r.range(1, 6) as u32 }),
            _ => ops.push(ROp::Settle { deep: r.chance(0.5), polls: r.range(1, 6) as u32 }),
        }
        if r.chance(0.4) {
            ops.push(ROp::Settle { deep: r.chance(0.6), polls: r.range(1, 4) as u32 });
        }
    }
    RPlan { seed, uplinks, ops }
}

pub fn shrink(plan: &RPlan) -> Vec<RPlan> {
    let mut out = Vec::new();
    for i in 0..plan.ops.len() {
        let mut p = plan.clone();
        p.ops.remove(i);
        out.push(p);
    }
    for i in 0..plan.ops.len() {
        if let ROp::Send { u, n, len, empty_at } = &plan.ops[i]
            && *n > 1
        {
            let mut p = plan.clone();
            let n2 = n / 2;
            p.ops[i] = ROp::Send { u: *u, n: n2, len: *len, empty_at: empty_at.iter().copied().filter(|e| *e < n2).collect() };
            out.push(p);
        }
    }
    out
}

struct NoBind;
impl UplinkBinder for NoBind {
    fn bind(&self, _sock: &socket2::Socket, _ip: std::net::IpAddr) -> anyhow::Result<()> {
        Ok(())
    }
}

pub fn execute(plan: &RPlan, want_excerpt: bool) -> RunOutcome {
    crate::lsim::clear_thread_seams();
    let mut seed_bytes = [0u8; 32];
    Rng::new(hash3(plan.seed, 0x5EED, 2)).fill(&mut seed_bytes);
    let rt = tokio::runtime::Builder::new_current_thread()
        .enable_all()
        .start_paused(true)
        .rng_seed(tokio::runtime::RngSeed::from_bytes(&seed_bytes))
        .build()
        .expect("tokio runtime");
    let local = tokio::task::LocalSet::new();
    let outcome = local.block_on(&rt, run(plan, want_excerpt));
    drop(local);
    drop(rt);
    outcome
}

async fn settle(deep: bool, polls: u32) {
    if deep {
        // the sleep returns once the I/O driver has been polled and time could advance; tasks it
        // woke may still sit in the run queue behind this one, so yield to them, and repeat
        for _ in 0..3 {
            tokio::time::sleep(std::time::Duration::from_millis(1)).await;
            for _ in 0..4 {
                tokio::task::yield_now().await;
            }
        }
    } else {
        for _ in 0..polls {
            tokio::task::yield_now().await;
        }
    }
}

async fn run(plan: &RPlan, want_excerpt: bool) -> RunOutcome {
    let mut out = MonOut::default();
    let mut stats = Stats::default();
    let mut excerpt = Vec::new();
    let (packet_tx, mut packet_rx) = sh::create_uplink_channel();
    let peer = UdpSocket::bind("127.0.0.1:0").expect("peer socket");
    let peer_addr = peer.local_addr().expect("peer address");
    let mut conns: Vec<SrtlaConnection> = Vec::new();
    let mut conn_io: sh::ConnIoMap = HashMap::new();
    let mut addrs: Vec<SocketAddr> = Vec::new();
    for u in 0..plan.uplinks {
        let sock = socket2::Socket::new(socket2::Domain::IPV4, socket2::Type::DGRAM, Some(socket2::Protocol::UDP)).expect("socket");
        sock.set_nonblocking(true).expect("nonblocking");
        let _ = sock.set_recv_buffer_size(212_992);
        sock.bind(&"127.0.0.1:0".parse::<SocketAddr>().unwrap().into()).expect("bind");
        let addr = sock.local_addr().expect("addr").as_socket().expect("inet");
        let id = 0x5000 + u as u64;
        conns.push(SrtlaConnection::new_registering(id, format!("r{u}"), "127.0.0.1".parse().unwrap(), 1_000_000));
        conn_io.insert(id, sh::ConnIo { socket: Arc::new(BatchUdpSocket::new(sock).expect("batch socket")), binder: Arc::new(NoBind), remote: peer_addr });
        addrs.push(addr);
    }
    let mut readers: HashMap<sh::ConnectionId, sh::ReaderHandle> = HashMap::new();
    sh::sync_readers(&conns, &conn_io, &mut readers, &packet_tx);
    // what each uplink was sent (non-empty only) and what the channel delivered for it
    let mut sent: Vec<Vec<Vec<u8>>> = vec![Vec::new(); plan.uplinks];
    let mut got: Vec<Vec<Vec<u8>>> = vec![Vec::new(); plan.uplinks];
    let mut counter: u64 = 0;
    let mut pending: Vec<u32> = vec![0; plan.uplinks];
    let mut old_addrs: Vec<Vec<SocketAddr>> = vec![Vec::new(); plan.uplinks];
    let mut drain = |got: &mut Vec<Vec<Vec<u8>>>, out: &mut MonOut, rx: &mut tokio::sync::mpsc::UnboundedReceiver<sh::UplinkPacket>| {
        while let Ok(p) = rx.try_recv() {
            match (0..plan.uplinks).find(|u| 0x5000 + *u as u64 == p.conn_id) {
                Some(u) => got[u].push(p.bytes.to_vec()),
                None => out.violate("C09.reader", "unknown_connection", 0, format!("a datagram arrived tagged with connection id {:x}", p.conn_id)),
            }
        }
    };
    for (i, op) in plan.ops.iter().enumerate() {
        match op {
            ROp::Send { u, n, len, empty_at } => {
                let Some(addr) = addrs.get(*u) else { continue };
                // never let more than ~40 datagrams plus one burst (at most 70) wait in one socket's
                // buffer (the enlarged receive buffer holds ~100 full-size ones, a page is charged
                // per datagram): whatever the plan says, the readers run to quiescence first
                if pending[*u] + *n > 40 && pending[*u] > 0 {
                    settle(true, 0).await;
                    pending.iter_mut().for_each(|p| *p = 0);
                    stats.inc("r.forced_settle_before_burst");
                }
                pending[*u] += *n;
                for k in 0..*n {
                    counter += 1;
                    let bytes: Vec<u8> = if empty_at.contains(&k) {
                        stats.inc("fault.zero_length_datagram");
                        Vec::new()
                    } else {
                        let l = 1 + (hash3(plan.seed, 0x1E4, counter) % (*len as u64)) as usize;
                        let mut b = vec![0u8; l.max(8).min(1500)];
                        Rng::new(hash3(plan.seed, 0xB0D1, counter)).fill(&mut b);
                        b[..8].copy_from_slice(&counter.to_be_bytes());
                        b
                    };
                    if peer.send_to(&bytes, addr).is_err() {
                        stats.inc("r.send_failed");
                        continue;
                    }
                    if !bytes.is_empty() {
                        sent[*u].push(bytes);
                    }
                }
                stats.add("r.datagrams_sent", *n as u64);
                if *n > 32 {
                    stats.inc("r.burst_longer_than_one_batch");
                }
            }
            ROp::Settle { deep, polls } => {
                settle(*deep, *polls).await;
                if *deep {
                    pending.iter_mut().for_each(|p| *p = 0);
                }
            }
            ROp::Sync => sh::sync_readers(&conns, &conn_io, &mut readers, &packet_tx),
            ROp::Reconnect { u } => {
                let Some(conn) = conns.get(*u) else { continue };
                // what still waits in the old socket's buffer dies with it - legitimately; to keep
                // the oracle exact the readers first run to quiescence
                settle(true, 0).await;
                pending.iter_mut().for_each(|p| *p = 0);
                let sock = socket2::Socket::new(socket2::Domain::IPV4, socket2::Type::DGRAM, Some(socket2::Protocol::UDP)).expect("socket");
                sock.set_nonblocking(true).expect("nonblocking");
                let _ = sock.set_recv_buffer_size(212_992);
                sock.bind(&"127.0.0.1:0".parse::<SocketAddr>().unwrap().into()).expect("bind");
                let addr = sock.local_addr().expect("addr").as_socket().expect("inet");
                let new = Arc::new(BatchUdpSocket::new(sock).expect("batch socket"));
                // as reconnect_uplink + restart_reader_for do: the I/O entry gets the new socket,
                // the reader is restarted on it
                if let Some(io) = conn_io.get_mut(&conn.conn_id) {
                    io.socket = new.clone();
                }
                sh::restart_reader_for(conn, new, &mut readers, &packet_tx);
                old_addrs[*u].push(addrs[*u]);
                addrs[*u] = addr;
                pending[*u] = 0;
                stats.inc("fault.uplink_socket_reopened");
            }
            ROp::SendOld { u, n } => {
                let Some(addr) = old_addrs.get(*u).and_then(|v| v.last()).copied() else { continue };
                for _ in 0..*n {
                    counter += 1;
                    let mut b = vec![0xEEu8; 40];
                    b[..8].copy_from_slice(&counter.to_be_bytes());
                    // (a closed socket answers with an ICMP error the peer sees on a later send)
                    let _ = peer.send_to(&b, addr);
                    stats.inc("r.datagram_to_superseded_socket");
                }
            }
        }
        drain(&mut got, &mut out, &mut packet_rx);
        if want_excerpt {
            excerpt.push(format!("#{i} {op:?}"));
        }
    }
    for _ in 0..20 {
        settle(true, 0).await;
        drain(&mut got, &mut out, &mut packet_rx);
        if (0..plan.uplinks).all(|u| got[u].len() >= sent[u].len()) {
            break;
        }
    }
    for r in readers.values() {
        if r.handle.is_finished() {
            out.violate("C09.reader", "reader_task_ended", 0, "a reader task ended although its uplink exists and the channel is open".into());
        }
    }
    let mut log = LogHash::default();
    for u in 0..plan.uplinks {
        out.probe("r.uplink_judged");
        for d in &got[u] {
            log.bytes(d);
        }
        if got[u] != sent[u] {
            let first = (0..sent[u].len().max(got[u].len())).find(|k| sent[u].get(*k) != got[u].get(*k)).unwrap_or(0);
            let tag = |d: Option<&Vec<u8>>| d.map(|d| format!("#{} ({} bytes)", u64::from_be_bytes(d[..8].try_into().unwrap_or([0; 8])), d.len())).unwrap_or_else(|| "nothing".into());
            out.violate(
                "C09.reader",
                if got[u].len() < sent[u].len() { "datagram_not_handed_to_the_loop" } else { "unexpected_datagram" },
                first as u64,
                format!(
                    "uplink {u}: {} non-empty datagrams were sent to its socket, {} reached the loop's channel; first difference at position {first}: sent {}, got {}",
                    sent[u].len(),
                    got[u].len(),
                    tag(sent[u].get(first)),
                    tag(got[u].get(first))
                ),
            );
        }
    }
    for (_, r) in readers.drain() {
        r.handle.abort();
    }
    stats.merge(&out.stats);
    RunOutcome {
        violations: out.violations,
        log_hash: log.0,
        nontrivial: true,
        inconclusive: false,
        stats,
        states: Vec::new(),
        transitions: Vec::new(),
        excerpt,
        sim_time_ms: 0,
    }
}
