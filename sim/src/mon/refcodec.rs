//! Reference codec written from the layouts in the C15 statement, independent
//! of `srtla-protocol`.

pub fn be16(b: &[u8], o: usize) -> u16 {
    u16::from_be_bytes([b[o], b[o + 1]])
}
pub fn be32(b: &[u8], o: usize) -> u32 {
    u32::from_be_bytes([b[o], b[o + 1], b[o + 2], b[o + 3]])
}
pub fn be64(b: &[u8], o: usize) -> u64 {
    let mut v = 0u64;
    for i in 0..8 {
        v = (v << 8) | b[o + i] as u64;
    }
    v
}

pub fn packet_type(b: &[u8]) -> Option<u16> {
    (b.len() >= 2).then(|| be16(b, 0))
}

/// Data packets are identified by a clear top bit; the sequence number is the first word.
pub fn data_seq(b: &[u8]) -> Option<u32> {
    (b.len() >= 4 && b[0] & 0x80 == 0).then(|| be32(b, 0))
}

/// Retransmit flag: bit 2 of byte 4 of a data packet (needs the second header word).
pub fn is_retransmit(b: &[u8]) -> bool {
    b.len() >= 8 && b[0] & 0x80 == 0 && b[4] & 0x04 != 0
}

/// SRT ACK number at bytes 16..20.
pub fn srt_ack(b: &[u8]) -> Option<u32> {
    (b.len() >= 20 && packet_type(b) == Some(0x8002)).then(|| be32(b, 16))
}

/// SRTLA ACK: 4-byte header plus big-endian 32-bit numbers.
pub fn srtla_ack(b: &[u8]) -> Vec<u32> {
    if b.len() < 8 || packet_type(b) != Some(0x9100) {
        return Vec::new();
    }
    b[4..].chunks_exact(4).map(|c| be32(c, 0)).collect()
}

/// NAK: entries after a 4-byte header; a range is marked by the top bit of its
/// first word and closed by the next word. Bounded: range expansion stops once
/// 1000 entries exist.
pub fn srt_nak(b: &[u8]) -> Vec<u32> {
    let mut out = Vec::new();
    if b.len() < 8 || packet_type(b) != Some(0x8003) {
        return out;
    }
    let words: Vec<u32> = b[4..].chunks_exact(4).map(|c| be32(c, 0)).collect();
    let mut k = 0;
    while k < words.len() {
        let w = words[k];
        k += 1;
        if w & 0x8000_0000 != 0 {
            if k >= words.len() {
                break;
            }
            let end = words[k];
            k += 1;
            let mut s = w & 0x7FFF_FFFF;
            loop {
                if s > end || out.len() >= 1000 {
                    break;
                }
                out.push(s);
                s = s.wrapping_add(1);
            }
        } else {
            out.push(w);
        }
    }
    out
}

pub fn keepalive_ts(b: &[u8]) -> Option<u64> {
    (b.len() >= 10 && packet_type(b) == Some(0x9000)).then(|| be64(b, 2))
}

#[derive(Debug, Clone, Copy, PartialEq, Eq)]
pub struct KaInfo {
    pub conn_id: u32,
    pub window: i32,
    pub in_flight: i32,
    pub rtt_ms: u32,
    pub nak_count: u32,
    pub bitrate: u32,
}

pub fn keepalive_info(b: &[u8]) -> Option<KaInfo> {
    if b.len() < 38 || packet_type(b) != Some(0x9000) || be16(b, 10) != 0xC01F || be16(b, 12) != 0x0001 {
        return None;
    }
    Some(KaInfo {
        conn_id: be32(b, 14),
        window: be32(b, 18) as i32,
        in_flight: be32(b, 22) as i32,
        rtt_ms: be32(b, 26),
        nak_count: be32(b, 30),
        bitrate: be32(b, 34),
    })
}

/// Differential decode of one datagram: real decoders versus this reference.
/// Returns a description of the first disagreement.
pub fn differential(b: &[u8]) -> Option<String> {
    use srtla_protocol as sp;
    if sp::get_packet_type(b) != packet_type(b) {
        return Some(format!("packet type {:?} vs {:?}", sp::get_packet_type(b), packet_type(b)));
    }
    if sp::get_srt_sequence_number(b) != data_seq(b) {
        return Some(format!("data sequence {:?} vs {:?}", sp::get_srt_sequence_number(b), data_seq(b)));
    }
    if sp::is_srt_data_retransmit(b) != is_retransmit(b) {
        return Some(format!("retransmit flag {} vs {}", sp::is_srt_data_retransmit(b), is_retransmit(b)));
    }
    if sp::parse_srt_ack(b) != srt_ack(b) {
        return Some(format!("SRT ACK {:?} vs {:?}", sp::parse_srt_ack(b), srt_ack(b)));
    }
    let rn = sp::parse_srt_nak(b);
    let mn = srt_nak(b);
    if rn.as_slice() != mn.as_slice() {
        return Some(format!("NAK list of {} vs {} entries (first {:?} vs {:?})", rn.len(), mn.len(), rn.first(), mn.first()));
    }
    let payload_words = b.len().saturating_sub(4) / 4;
    if rn.len() > 1000 + payload_words {
        return Some(format!("NAK expansion unbounded: {} entries from {} payload words", rn.len(), payload_words));
    }
    let ra = sp::parse_srtla_ack(b);
    let ma = srtla_ack(b);
    if ra.as_slice() != ma.as_slice() {
        return Some(format!("SRTLA ACK list {:?} vs {:?}", &ra.as_slice()[..ra.len().min(4)], &ma[..ma.len().min(4)]));
    }
    if sp::extract_keepalive_timestamp(b) != keepalive_ts(b) {
        return Some(format!("keepalive timestamp {:?} vs {:?}", sp::extract_keepalive_timestamp(b), keepalive_ts(b)));
    }
    let ri = sp::extract_keepalive_conn_info(b).map(|i| KaInfo {
        conn_id: i.conn_id,
        window: i.window,
        in_flight: i.in_flight,
        rtt_ms: i.rtt_ms,
        nak_count: i.nak_count,
        bitrate: i.bitrate_bytes_per_sec,
    });
    if ri != keepalive_info(b) {
        return Some(format!("keepalive info {:?} vs {:?}", ri, keepalive_info(b)));
    }
    None
}
