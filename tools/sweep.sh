#!/bin/sh
# tools/sweep.sh "<ids>" "<seeds>" [tier]  - rebuild from /repo's working tree first (never run a stale binary),
# then run each check at each seed with evidence/replays going to /tmp/ev; prints only non-OK lines.
cd "$(dirname "$0")/.." || exit 2
if [ -n "$(git -C /repo status --porcelain)" ]; then echo "REFUSING: /repo has uncommitted changes (a patch is applied?)"; exit 2; fi
./run.sh C15 quick > /dev/null || { echo "build or C15 failed"; exit 2; }
tier=${3:-quick}
for s in $2; do for id in $1; do
  VERIF_SEED=$s VERIF_EVIDENCE_DIR=/tmp/ev VERIF_REPLAY_DIR=/tmp/ev ./sim/target/release/verif $id $tier | grep -E "^(FAIL|VIOLATION|violation|HARNESS)" | cut -c1-400
done; done
echo "swept ids=[$1] seeds=[$2] tier=$tier"
