#!/usr/bin/env python3
"""Regression over every kept sub-agent change: apply seeded/<name>/patch.diff to a scratch worktree of /repo,
run the quick check of the property that is recorded as catching it on a scratch copy of the simulator
(paths rewritten), expect exit 1. Leaves /repo and /verif/sim untouched. Usage: reseed_check.py [name-substring ...]"""
import glob, json, os, subprocess, sys, time
def sh(c): return subprocess.run(c, shell=True, capture_output=True, text=True)
repo, mv = "/tmp/rs_repo", "/tmp/rs_verif"
sh(f"git -C /repo worktree remove --force {repo}; rm -rf {repo} {mv}; git -C /repo worktree prune")
sh(f"git -C /repo worktree add --detach {repo} HEAD")
sh(f"mkdir -p {mv} && rsync -a --exclude target /verif/sim {mv}/ && cp /verif/run.sh {mv}/")
sh(f"sed -i 's#\"/repo#\"{repo}#g' {mv}/sim/Cargo.toml {mv}/sim/src/main.rs")
want = sys.argv[1:]
bad = []
n = 0
for d in sorted(glob.glob("/verif/seeded/*")):
    name = os.path.basename(d)
    if want and not any(w in name for w in want): continue
    meta = json.load(open(d + "/meta.json"))
    props = meta.get("caught_by") or [meta["property"]]
    sh(f"git -C {repo} checkout -- .")
    r = sh(f"git -C {repo} apply {d}/patch.diff")
    if r.returncode != 0:
        print(f"{name:10s} APPLY-FAILED"); bad.append((name, "apply")); continue
    env = dict(os.environ, VERIF_EVIDENCE_DIR="/tmp/ev", VERIF_REPLAY_DIR="/tmp/ev", CARGO_NET_OFFLINE="true")
    t = time.time()
    o = subprocess.run([mv + "/run.sh", props[0], "quick"], capture_output=True, text=True, env=env)
    v = [l for l in o.stdout.splitlines() if l.startswith("violation:")]
    verdict = {0: "MISSED", 1: "caught", 2: "HARNESS-ERROR"}.get(o.returncode, str(o.returncode))
    n += 1
    print(f"{name:10s} {props[0]} {verdict:8s} {time.time()-t:5.1f}s {(v[0][:150] if v else '')}", flush=True)
    if verdict != "caught": bad.append((name, verdict))
sh(f"git -C /repo worktree remove --force {repo}; rm -rf {mv}; git -C /repo worktree prune")
print(f"\n{n - len([b for b in bad if b[1] != 'apply'])}/{n} caught; problems: {bad}")
