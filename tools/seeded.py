#!/usr/bin/env python3
"""Confirm and file a seeded change produced by a sub-agent.

usage: seeded.py <property> <agent_mutant_dir> <name> [--all-checks]
 1. in a scratch worktree (/tmp/confirm_<name>): apply patch.diff, build, run the unedited suite,
    run the demonstration (must fail), revert, run it again (must pass);
 2. apply the patch to /repo, run /verif/run.sh <property> quick (and optionally every check),
    undo it (git -C /repo checkout -- .);
 3. write /verif/seeded/<name>/{patch.diff, demo/..., meta.json}.
The demonstration command is read from a file DEMO_CMD in the mutant dir (one shell line run in the
worktree root), the files to copy from DEMO_FILES (lines: <src relative to mutant dir> <dst relative to worktree>)."""
import json, os, shutil, subprocess, sys, time

def sh(cmd, cwd=None, env=None, timeout=3600):
    e = dict(os.environ, CARGO_NET_OFFLINE="true")
    if env: e.update(env)
    r = subprocess.run(cmd, shell=True, cwd=cwd, env=e, capture_output=True, text=True, timeout=timeout)
    return r.returncode, r.stdout + r.stderr

def main():
    prop, mdir, name = sys.argv[1:4]
    allc = "--all-checks" in sys.argv
    wt = f"/tmp/confirm_{name}"
    sh(f"git -C /repo worktree remove --force {wt}")
    rc, out = sh(f"git -C /repo worktree add --detach {wt} HEAD")
    assert rc == 0, out
    tgt = {"CARGO_TARGET_DIR": "/tmp/confirm_target"}
    meta = {"property": prop, "name": name, "confirmed": {}}
    try:
        rc, out = sh(f"git apply {mdir}/patch.diff", cwd=wt)
        assert rc == 0, "patch does not apply: " + out
        rc, out = sh("cargo build --offline", cwd=wt, env=tgt)
        meta["confirmed"]["builds_with_warnings_as_errors"] = rc == 0
        rc, out = sh("cargo test --workspace --no-fail-fast --offline", cwd=wt, env=tgt)
        passed = sum(int(l.split()[3]) for l in out.splitlines() if l.startswith("test result:"))
        failed = sum(int(l.split()[5]) for l in out.splitlines() if l.startswith("test result:"))
        meta["confirmed"]["existing_suite"] = {"passed": passed, "failed": failed}
        # demonstration
        for line in open(f"{mdir}/DEMO_FILES").read().splitlines():
            if not line.strip(): continue
            src, dst = line.split()
            os.makedirs(os.path.dirname(f"{wt}/{dst}") or ".", exist_ok=True)
            shutil.copy(f"{mdir}/{src}", f"{wt}/{dst}")
        cmd = open(f"{mdir}/DEMO_CMD").read().strip()
        rc1, out1 = sh(cmd, cwd=wt, env=tgt)
        meta["confirmed"]["demo_fails_with_change"] = rc1 != 0
        sh(f"git apply -R {mdir}/patch.diff", cwd=wt)
        rc2, out2 = sh(cmd, cwd=wt, env=tgt)
        meta["confirmed"]["demo_passes_without_change"] = rc2 == 0
        meta["demo_cmd"] = cmd
        if rc2 != 0:
            meta["confirmed"]["demo_tail_without_change"] = out2[-1500:]
    finally:
        sh(f"git -C /repo worktree remove --force {wt}")
    if "--confirm-only" in sys.argv:
        results = json.load(open(f"{mdir}/CHECKS.json")) if os.path.exists(f"{mdir}/CHECKS.json") else {}
        file_it(meta, results, prop, mdir, name)
        return
    # run the checks against the change
    sh("git -C /repo checkout -- .")
    rc, out = sh(f"git -C /repo apply {mdir}/patch.diff")
    assert rc == 0, out
    results = {}
    try:
        props = [prop]
        if allc:
            props += [f"C{i:02d}" for i in range(1, 21) if f"C{i:02d}" != prop]
        for p in props:
            t = time.time()
            rc, out = sh(f"/verif/run.sh {p} quick", env={"VERIF_EVIDENCE_DIR": "/tmp/ev", "VERIF_REPLAY_DIR": "/tmp/ev"})
            v = [l for l in out.splitlines() if l.startswith("violation:")]
            results[p] = {"exit": rc, "seconds": round(time.time() - t, 1), "violation": v[0][:400] if v else None}
            print(p, rc, v[0][:200] if v else out.strip().splitlines()[-1][:200], flush=True)
    finally:
        sh("git -C /repo checkout -- .")
    file_it(meta, results, prop, mdir, name)

def file_it(meta, results, prop, mdir, name):
    meta["checks"] = results
    meta["caught_by"] = [p for p, r in results.items() if r["exit"] == 1]
    dst = f"/verif/seeded/{name}"
    os.makedirs(dst + "/demo", exist_ok=True)
    shutil.copy(f"{mdir}/patch.diff", dst + "/patch.diff")
    for f in os.listdir(mdir):
        if f not in ("patch.diff",):
            p = f"{mdir}/{f}"
            if os.path.isfile(p):
                shutil.copy(p, dst + "/demo/" + f)
    if os.path.exists(f"{mdir}/STRENGTHENED"):
        meta["strengthened"] = open(f"{mdir}/STRENGTHENED").read()
    notes = open(f"{mdir}/NOTES.md").read() if os.path.exists(f"{mdir}/NOTES.md") else ""
    meta["needs_to_manifest"] = notes[:3000]
    meta["what_was_run"] = ["git apply patch in scratch worktree; cargo build --offline (-D warnings); cargo test --workspace --no-fail-fast --offline; demo with and without the change",
                            "git -C /repo apply patch; /verif/run.sh <property> quick; git -C /repo checkout -- ."]
    json.dump(meta, open(dst + "/meta.json", "w"), indent=1)
    print(json.dumps(meta["confirmed"]), "caught_by", meta["caught_by"])

main()
