//! C14 — keepalive cadence, frame contents and RTT sampling from echoes.

use std::collections::HashMap;

use srtla_send::net::verif_hooks::UplinkCall;

use super::refcodec as rc;
use super::{T_KEEPALIVE, T_SRT_ACK, Truth, ptype};
use crate::lsim::{MonOut, Monitor, StepCtx, StepKind, find_view};

const M: &str = "C14";

#[derive(Default)]
pub struct C14 {
    truth: Truth,
    /// Last time a keepalive was handed to the socket, per link.
    last_ka: HashMap<u64, u64>,
    /// The monitor's own "a probe is outstanding": a keepalive was handed to the socket since
    /// the link's last reset and no echo has come back since. (The implementation arms its flag
    /// on a subset of the keepalives, so its flag implies this one - never the other way round.)
    own_outstanding: HashMap<u64, bool>,
}

fn reset_between(a: &[crate::lsim::LinkView], b: &[crate::lsim::LinkView], reg_err: &[u64]) -> Vec<u64> {
    a.iter()
        .filter_map(|va| {
            let vb = b.iter().find(|x| x.conn_id == va.conn_id)?;
            let fell = va.connected && !vb.connected && !reg_err.contains(&va.conn_id);
            (va.fd != vb.fd || va.last_attempt_ms != vb.last_attempt_ms || fell).then_some(va.conn_id)
        })
        .collect()
}

impl C14 {
    pub fn new() -> Self {
        Self::default()
    }
}

impl Monitor for C14 {
    fn on_step(&mut self, ctx: &StepCtx<'_>, out: &mut MonOut) {
        let reg_err: Vec<u64> = ctx.uplink.iter().filter(|(_, b)| ptype(b) == Some(super::T_REG_ERR)).map(|(c, _)| *c).collect();
        for c in reset_between(ctx.pre, ctx.mid, &reg_err) {
            self.own_outstanding.insert(c, false);
        }
        // ---- frames on the wire ----
        let mut ka_now: HashMap<u64, u32> = HashMap::new();
        for w in ctx.wire {
            if w.call != UplinkCall::Send || ptype(&w.offered[0]) != Some(T_KEEPALIVE) {
                continue;
            }
            let d = &w.offered[0];
            // keepalives are built in the main action, from the pre-step state
            let Some(v) = ctx.pre.iter().find(|v| v.fd == Some(w.fd)) else {
                continue;
            };
            *ka_now.entry(v.conn_id).or_insert(0) += 1;
            out.probe("c14.keepalive_sent");
            // a keepalive counts as sent when it is handed to the socket (whatever the socket
            // answers); one sent before a reset in the same pass does not survive the reset
            let reset_after = find_view(ctx.mid, v.conn_id).is_none_or(|m| !m.connected || m.fd != v.fd);
            if !reset_after {
                self.own_outstanding.insert(v.conn_id, true);
            }
            let info = rc::keepalive_info(d);
            let expect = rc::KaInfo {
                conn_id: v.conn_id as u32,
                window: v.window,
                in_flight: v.in_flight,
                rtt_ms: v.kalman_raw as u32,
                nak_count: v.nak_count as u32,
                bitrate: (v.bitrate_bps / 8.0) as u32,
            };
            if d.len() != 38 || rc::keepalive_ts(d) != Some(ctx.now) || info != Some(expect) {
                out.violate(
                    &format!("{M}.frame"),
                    "",
                    ctx.idx,
                    format!(
                        "keepalive on link {:x}: {} bytes, timestamp {:?} (now {}), telemetry {:?}, link state {:?}",
                        v.conn_id,
                        d.len(),
                        rc::keepalive_ts(d),
                        ctx.now,
                        info,
                        expect
                    ),
                );
            }
            if !matches!(ctx.kind, StepKind::Housekeeping) {
                out.violate(&format!("{M}.frame"), "outside_housekeeping", ctx.idx, "keepalive sent outside a housekeeping pass".into());
            }
        }
        // ---- cadence ----
        if matches!(ctx.kind, StepKind::Housekeeping) && ctx.idx > 1 {
            for v in ctx.pre {
                let usable = self.truth.usable_strict(v, ctx.now, ctx.cfg.conn_timeout_ms);
                if !usable {
                    continue;
                }
                let due = self.last_ka.get(&v.conn_id).is_none_or(|t| ctx.now.saturating_sub(*t) >= 1000);
                if due {
                    out.probe("c14.keepalive_due");
                    if !ka_now.contains_key(&v.conn_id) {
                        out.violate(
                            &format!("{M}.cadence"),
                            "",
                            ctx.idx,
                            format!(
                                "link {:x} is connected and heard {} ms ago (timeout {}), its last keepalive was {:?} ms ago, yet this housekeeping pass sent none",
                                v.conn_id,
                                self.truth.silent_for(v.conn_id, ctx.now).unwrap_or(0),
                                ctx.cfg.conn_timeout_ms,
                                self.last_ka.get(&v.conn_id).map(|t| ctx.now - t)
                            ),
                        );
                    }
                }
            }
        }
        for c in ka_now.keys() {
            self.last_ka.insert(*c, ctx.now);
        }

        // ---- sampling from echoes ----
        let srt_ack_in_step = ctx.uplink.iter().any(|(_, b)| ptype(b) == Some(T_SRT_ACK));
        let reset_in_step = |c: u64| {
            find_view(ctx.pre, c)
                .zip(find_view(ctx.post, c))
                .is_some_and(|(a, b)| a.fd != b.fd || a.last_attempt_ms != b.last_attempt_ms)
        };
        for pre in ctx.pre {
            let Some(post) = find_view(ctx.post, pre.conn_id) else {
                continue;
            };
            let echoes: Vec<&Vec<u8>> = ctx
                .uplink
                .iter()
                .filter(|(c, b)| *c == pre.conn_id && ptype(b) == Some(T_KEEPALIVE))
                .map(|(_, b)| b)
                .collect();
            if !post.srtt.is_finite() || post.srtt < 0.0 {
                out.violate(&format!("{M}.smoothed_rtt"), "", ctx.idx, format!("link {:x}: smoothed RTT {}", pre.conn_id, post.srtt));
            }
            if echoes.is_empty() {
                continue;
            }
            // keepalives sent in this same step happen before the drain; waiting flag after the main action:
            let mid = find_view(ctx.mid, pre.conn_id).unwrap_or(pre);
            // for the uplink arm the first datagram is processed in the main action itself
            let mut waiting = if matches!(ctx.kind, StepKind::Uplink) { pre.waiting_ka } else { mid.waiting_ka };
            // the monitor's own necessary condition: a sample needs a probe on the wire since the
            // link's last reset that no earlier echo has answered
            let own_before = self.own_outstanding.get(&pre.conn_id).copied().unwrap_or(false);
            self.own_outstanding.insert(pre.conn_id, false);
            if !srt_ack_in_step
                && !own_before
                && !reset_in_step(pre.conn_id)
                && (post.last_rtt_meas_ms != pre.last_rtt_meas_ms || post.kalman_raw != pre.kalman_raw)
            {
                out.violate(
                    &format!("{M}.sampling"),
                    "sample_without_probe_on_the_wire",
                    ctx.idx,
                    format!("link {:x}: an echo produced a round-trip sample although no keepalive has been sent on the link since its last reset / last echo", pre.conn_id),
                );
            }
            let mut sampled = 0u32;
            for e in &echoes {
                out.probe("c14.echo");
                if !waiting {
                    out.probe("c14.unsolicited_echo");
                    continue;
                }
                match rc::keepalive_ts(e) {
                    Some(ts) => {
                        let rtt = ctx.now.saturating_sub(ts);
                        if rtt > 0 && rtt <= 10_000 {
                            sampled += 1;
                            out.probe("c14.sample_taken");
                        } else {
                            out.probe("c14.invalid_echo_timing");
                        }
                    }
                    None => out.probe("c14.truncated_echo"),
                }
                waiting = false;
            }
            if reset_in_step(pre.conn_id) {
                continue;
            }
            if post.waiting_ka != waiting {
                out.violate(
                    &format!("{M}.sampling"),
                    "waiting_flag",
                    ctx.idx,
                    format!("link {:x}: outstanding-probe flag {} after {} echo(es), expected {}", pre.conn_id, post.waiting_ka, echoes.len(), waiting),
                );
            }
            if !srt_ack_in_step {
                let changed = post.last_rtt_meas_ms != pre.last_rtt_meas_ms || post.kalman_raw != pre.kalman_raw;
                // A second sample in the very millisecond of the previous one (an SRT ACK just
                // before the echo) with the same value leaves no trace in the observed fields.
                let unobservable = sampled > 0 && !changed && pre.last_rtt_meas_ms == ctx.now;
                if unobservable {
                    out.probe("c14.sample_unobservable_same_ms");
                } else if changed != (sampled > 0) || (sampled > 0 && post.last_rtt_meas_ms != ctx.now) {
                    out.violate(
                        &format!("{M}.sampling"),
                        if sampled > 0 { "sample_missing" } else { "sample_without_valid_echo" },
                        ctx.idx,
                        format!(
                            "link {:x}: RTT state changed={} but {} valid solicited echo(es) arrived (outstanding probe before: {}, echo timestamps {:?}, now {})",
                            pre.conn_id,
                            changed,
                            sampled,
                            pre.waiting_ka,
                            echoes.iter().map(|e| rc::keepalive_ts(e)).collect::<Vec<_>>(),
                            ctx.now
                        ),
                    );
                }
            }
        }
        for c in reset_between(ctx.mid, ctx.post, &reg_err) {
            self.own_outstanding.insert(c, false);
        }
        // the implementation's flag never claims a probe the wire has not seen
        for v in ctx.post {
            if v.waiting_ka && !self.own_outstanding.get(&v.conn_id).copied().unwrap_or(false) {
                out.violate(
                    &format!("{M}.sampling"),
                    "probe_flag_without_probe",
                    ctx.idx,
                    format!("link {:x}: the outstanding-probe flag is set although no keepalive has been sent on the link since its last reset / last echo (connected={})", v.conn_id, v.connected),
                );
                self.own_outstanding.insert(v.conn_id, true);
            }
        }
        self.truth.update(ctx);
    }
}
